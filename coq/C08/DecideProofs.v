(* C08 — the boolean versions of the specification decide it. *)
From HV Require Import Lib.Base C08.Model C08.Order.
Open Scope N_scope.

Lemma negb_iff (b : bool) (P : Prop) : (b = true <-> P) -> (negb b = true <-> ~ P).
Proof. intros H. destruct b; cbn; split; try tauto; try congruence. intros _. intros HP. apply H in HP. discriminate. Qed.

Lemma implb_iff (a b : bool) (P Q : Prop) :
  (a = true <-> P) -> (b = true <-> Q) -> (negb a || b = true <-> (P -> Q)).
Proof.
  intros H1 H2. split.
  - intros H HP. apply orb_true_iff in H. destruct H as [H|H].
    + apply negb_true_iff in H. apply H1 in HP. congruence.
    + now apply H2.
  - intros H. destruct a; cbn; [|reflexivity]. apply H2, H, H1. reflexivity.
Qed.

Lemma name_inb_iff n l : name_inb n l = true <-> In n l.
Proof.
  unfold name_inb. rewrite existsb_exists. split.
  - intros (x & Hx & E). apply name_eqb_eq in E. now subst.
  - intros H. exists n. split; [exact H|]. now apply name_eqb_eq.
Qed.

Lemma exists_nameb_iff z n : exists_nameb z n = true <-> exists_name z n.
Proof.
  unfold exists_nameb, exists_name. rewrite existsb_exists.
  split; intros (o & Ho & H); exists o; (split; [exact Ho|]); now apply zone_of_prefix.
Qed.

Lemma has_typeb_iff z n t : has_typeb z n t = true <-> has_type z n t.
Proof.
  unfold has_typeb, has_type. rewrite existsb_exists. split.
  - intros ([o ts] & Hin & H). cbn [fst snd] in H. apply andb_true_iff in H. destruct H as [E H].
    apply name_eqb_eq in E. subst o. exists ts. auto.
  - intros (ts & Hin & H). exists (n, ts). split; [exact Hin|]. cbn [fst snd].
    rewrite H, (proj2 (name_eqb_eq n n) eq_refl). reflexivity.
Qed.

Lemma is_cutb_iff z d : is_cutb z d = true <-> is_cut z d.
Proof.
  unfold is_cutb, is_cut. rewrite !andb_true_iff, name_inb_iff, has_typeb_iff.
  rewrite (negb_iff _ _ (has_typeb_iff z d T_SOA)). tauto.
Qed.

Lemma is_dnameb_iff z d : is_dnameb z d = true <-> is_dname z d.
Proof. unfold is_dnameb, is_dname. rewrite andb_true_iff, name_inb_iff, has_typeb_iff. tauto. Qed.

Lemma Neqb_list_eq a b : list_eqb N.eqb a b = true <-> a = b.
Proof. apply list_eqb_eq. intros; apply N.eqb_eq. Qed.

Lemma wf_zoneb_sound z : wf_zoneb z = true -> wf_zone z.
Proof.
  unfold wf_zoneb, wf_zone. rewrite !andb_true_iff. intros ((((H1 & H2) & H3) & H4) & H5).
  split; [now apply name_inb_iff|]. split.
  { intros o Ho. rewrite forallb_forall in H2. apply zone_of_prefix. now apply H2. }
  split.
  { intros o ts ts' Hi Hi'. rewrite forallb_forall in H3. specialize (H3 _ Hi).
    rewrite forallb_forall in H3. specialize (H3 _ Hi'). cbn [fst snd] in H3.
    rewrite (proj2 (name_eqb_eq o o) eq_refl) in H3. cbn in H3. now apply Neqb_list_eq. }
  split; [now apply has_typeb_iff|].
  intros d o Hd Ho Hp. rewrite forallb_forall in H5.
  assert (Hdin : In d (owners z)) by (destruct Hd as [(H & _)|(H & _)]; exact H).
  specialize (H5 d Hdin). apply orb_true_iff in H5. destruct H5 as [H5|H5].
  - exfalso. apply negb_true_iff in H5. apply orb_false_iff in H5. destruct H5 as [Ha Hb].
    destruct Hd as [Hd|Hd]; [apply is_cutb_iff in Hd|apply is_dnameb_iff in Hd]; congruence.
  - rewrite forallb_forall in H5. specialize (H5 o Ho). apply orb_true_iff in H5.
    destruct H5 as [H5|H5].
    + apply negb_true_iff in H5. apply zone_of_prefix in Hp. congruence.
    + now apply name_eqb_eq.
Qed.

Lemma same_typesb_sound a b : same_typesb a b = true -> forall t, contains a t = contains b t.
Proof.
  unfold same_typesb. rewrite forallb_forall. intros H t.
  destruct (contains a t) eqn:Ea.
  - assert (Hin : In t (a ++ b)).
    { apply in_or_app. left. unfold contains in Ea. apply existsb_exists in Ea.
      destruct Ea as (x & Hx & E). apply N.eqb_eq in E. now subst. }
    specialize (H t Hin). rewrite Ea in H. destruct (contains b t); [reflexivity|discriminate].
  - destruct (contains b t) eqn:Eb; [|reflexivity].
    assert (Hin : In t (a ++ b)).
    { apply in_or_app. right. unfold contains in Eb. apply existsb_exists in Eb.
      destruct Eb as (x & Hx & E). apply N.eqb_eq in E. now subst. }
    specialize (H t Hin). rewrite Ea, Eb in H. discriminate.
Qed.

Lemma genuineb_sound z r : genuineb z r = true -> genuine z r.
Proof.
  unfold genuineb, genuine. rewrite !andb_true_iff. intros ((H1 & H2) & H3). split.
  { apply existsb_exists in H1. destruct H1 as ([o ts] & Hin & H). cbn [fst snd] in H.
    apply andb_true_iff in H. destruct H as [E H]. apply name_eqb_eq in E. subst o.
    exists ts. split; [exact Hin|]. now apply same_typesb_sound. }
  split; [now apply name_inb_iff|].
  apply orb_true_iff in H3. destruct H3 as [H3|H3]; apply andb_true_iff in H3; destruct H3 as [Ha Hb];
    rewrite forallb_forall in Hb.
  - left. split; [now apply name_ltb_lt|]. intros o Ho [Hx Hy].
    specialize (Hb o Ho). apply negb_true_iff in Hb.
    rewrite (proj2 (name_ltb_lt _ _) Hx), (proj2 (name_ltb_lt _ _) Hy) in Hb. discriminate.
  - right. split; [now apply name_eqb_eq|]. intros o Ho. specialize (Hb o Ho).
    apply negb_true_iff in Hb. unfold nle. unfold name_gtb in Hb.
    destruct (name_cmp o (n_owner r)); congruence.
Qed.

Lemma in_prefixes q c : In c (prefixes q) <-> prefix c q.
Proof.
  unfold prefixes. rewrite in_map_iff. split.
  - intros (k & <- & _). apply prefix_firstn.
  - intros H. exists (length c). split; [symmetry; now apply prefix_is_firstn|].
    apply in_seq. apply prefix_length in H. lia.
Qed.

Lemma is_ceb_iff z q c : is_ceb z q c = true <-> is_ce z q c.
Proof.
  unfold is_ceb, is_ce. rewrite !andb_true_iff, zone_of_prefix, exists_nameb_iff, forallb_forall.
  split.
  - intros ((H1 & H2) & H3). repeat split; auto. intros c' Hp He. apply in_prefixes in Hp. specialize (H3 c' Hp).
    apply orb_true_iff in H3. destruct H3 as [H3|H3].
    + apply negb_true_iff in H3. apply exists_nameb_iff in He. congruence.
    + now apply Nat.leb_le.
  - intros (H1 & H2 & H3). repeat split; auto. intros c' Hin. apply in_prefixes in Hin.
    destruct (exists_nameb z c') eqn:E; [|reflexivity]. cbn.
    apply Nat.leb_le. apply H3; [exact Hin|now apply exists_nameb_iff].
Qed.

Lemma occludedb_iff z q qt : occludedb z q qt = true <-> occluded z q qt.
Proof.
  unfold occludedb, occluded. rewrite existsb_exists. split.
  - intros (d & Hd & H). exists d. apply andb_true_iff in H. destruct H as [Hp H].
    split; [now apply zone_of_prefix|]. apply orb_true_iff in H. destruct H as [H|H];
      apply andb_true_iff in H; destruct H as [Ha Hb]; apply negb_true_iff in Hb.
    + left. split; [now apply is_cutb_iff|]. intros [-> ->].
      rewrite (proj2 (name_eqb_eq q q) eq_refl), N.eqb_refl in Hb. discriminate.
    + right. split; [now apply is_dnameb_iff|]. intros ->.
      rewrite (proj2 (name_eqb_eq q q) eq_refl) in Hb. discriminate.
  - intros (d & Hp & H). exists d.
    assert (Hd : In d (owners z)) by (destruct H as [[(H & _) _]|[(H & _) _]]; exact H).
    split; [exact Hd|]. rewrite (proj2 (zone_of_prefix d q) Hp). cbn [andb].
    apply orb_true_iff. destruct H as [[Hc Hn]|[Hc Hn]].
    + left. rewrite (proj2 (is_cutb_iff z d) Hc). cbn. apply negb_true_iff.
      destruct (name_eqb d q) eqn:E1; [|reflexivity]. destruct (N.eqb qt T_DS) eqn:E2; [|reflexivity].
      exfalso. apply Hn. apply name_eqb_eq in E1. apply N.eqb_eq in E2. auto.
    + right. rewrite (proj2 (is_dnameb_iff z d) Hc). cbn. apply negb_true_iff.
      destruct (name_eqb d q) eqn:E1; [|reflexivity]. apply name_eqb_eq in E1. contradiction.
Qed.

Lemma lacksb_iff z n qt : lacksb z n qt = true <-> lacks z n qt.
Proof.
  unfold lacksb, lacks. rewrite !andb_true_iff, name_inb_iff.
  rewrite (negb_iff _ _ (has_typeb_iff z n qt)), (negb_iff _ _ (has_typeb_iff z n T_CNAME)). tauto.
Qed.

Lemma ent_b_iff z n : ent_b z n = true <-> (exists_name z n /\ ~ In n (owners z)).
Proof.
  unfold ent_b. rewrite andb_true_iff, exists_nameb_iff, (negb_iff _ _ (name_inb_iff n (owners z))). tauto.
Qed.

Lemma forall_ce_iff z q (f : name -> bool) (P : name -> Prop) :
  (forall c, f c = true <-> P c) ->
  (forallb (fun c => negb (is_ceb z q c) || f c) (prefixes q) = true
   <-> forall c, is_ce z q c -> P c).
Proof.
  intros Hf. rewrite forallb_forall. split.
  - intros H c Hc. assert (Hin : In c (prefixes q)) by (apply in_prefixes; apply Hc).
    specialize (H c Hin). exact (proj1 (implb_iff _ _ _ _ (is_ceb_iff z q c) (Hf c)) H Hc).
  - intros H c _. apply (implb_iff _ _ _ _ (is_ceb_iff z q c) (Hf c)). apply H.
Qed.

Lemma claim_nxdomainb_iff z q : claim_nxdomainb z q = true <-> claim_nxdomain z q.
Proof.
  unfold claim_nxdomainb, claim_nxdomain.
  rewrite andb_true_iff, (negb_iff _ _ (exists_nameb_iff z q)).
  rewrite (forall_ce_iff z q (fun c => negb (exists_nameb z (prepend_star c)))
             (fun c => ~ exists_name z (prepend_star c))); [tauto|].
  intros c. apply negb_iff. apply exists_nameb_iff.
Qed.

Lemma claim_nodatab_iff z q qt : claim_nodatab z q qt = true <-> claim_nodata z q qt.
Proof.
  unfold claim_nodatab, claim_nodata.
  rewrite !orb_true_iff, andb_true_iff, lacksb_iff, ent_b_iff, (negb_iff _ _ (exists_nameb_iff z q)).
  assert (H : forallb (fun c => negb (is_ceb z q c) || lacksb z (prepend_star c) qt
                                || ent_b z (prepend_star c)) (prefixes q) = true
              <-> forall c, is_ce z q c ->
                    lacks z (prepend_star c) qt
                    \/ (exists_name z (prepend_star c) /\ ~ In (prepend_star c) (owners z))).
  { rewrite <- (forall_ce_iff z q (fun c => lacksb z (prepend_star c) qt || ent_b z (prepend_star c))).
    - rewrite !forallb_forall. split; intros H c Hc; specialize (H c Hc);
        [now rewrite <- orb_assoc in H|now rewrite <- orb_assoc].
    - intros c. rewrite orb_true_iff, lacksb_iff, ent_b_iff. tauto. }
  rewrite H. tauto.
Qed.

Lemma wild_rrsigb_iff r : wild_rrsigb r = true <-> exists l, wild_rrsig r l.
Proof.
  unfold wild_rrsigb, wild_rrsig. rewrite andb_true_iff. split.
  - intros [H1 H2]. destruct (a_rrsig r) as [l|]; [|discriminate]. exists l.
    apply N.ltb_lt in H2. auto.
  - intros (l & H1 & H2 & H3). rewrite H2. split; [exact H1|now apply N.ltb_lt].
Qed.

Lemma genuine_answersb_sound z answers : genuine_answersb z answers = true -> genuine_answers z answers.
Proof.
  unfold genuine_answersb, genuine_answers. rewrite forallb_forall. intros H r l Hr Hw.
  specialize (H r Hr). apply orb_true_iff in H. destruct H as [H|H].
  - apply negb_true_iff in H. assert (wild_rrsigb r = true) by (apply wild_rrsigb_iff; eauto). congruence.
  - destruct Hw as (_ & E & _). rewrite E in H. now apply name_inb_iff.
Qed.

Lemma claim_wildcardb_iff z q answers : claim_wildcardb z q answers = true <-> claim_wildcard z q answers.
Proof.
  unfold claim_wildcardb, claim_wildcard.
  rewrite andb_true_iff, (negb_iff _ _ (exists_nameb_iff z q)), forallb_forall.
  split; intros [H1 H2]; (split; [exact H1|]).
  - intros r l Hr Hw Hn. specialize (H2 r Hr). apply orb_true_iff in H2. destruct H2 as [H2|H2].
    + apply negb_true_iff in H2. apply andb_false_iff in H2. destruct H2 as [H2|H2].
      * assert (wild_rrsigb r = true) by (apply wild_rrsigb_iff; eauto). congruence.
      * apply name_eqb_eq in Hn. congruence.
    + destruct Hw as (_ & E & _). rewrite E in H2. now apply is_ceb_iff.
  - intros r Hr. destruct (wild_rrsigb r && name_eqb (a_name r) q) eqn:E; [|reflexivity]. cbn.
    apply andb_true_iff in E. destruct E as [Ew En]. apply name_eqb_eq in En.
    apply wild_rrsigb_iff in Ew. destruct Ew as (l & Hw).
    pose proof Hw as (_ & E & _). rewrite E. apply is_ceb_iff. now apply (H2 r l).
Qed.

Theorem claimb_iff z q qt rc answers : claimb z q qt rc answers = true <-> claim_holds z q qt rc answers.
Proof.
  unfold claimb, claim_holds.
  rewrite !andb_true_iff, zone_of_prefix, (negb_iff _ _ (occludedb_iff z q qt)).
  destruct rc; destruct answers;
    rewrite ?claim_nxdomainb_iff, ?claim_nodatab_iff, ?claim_wildcardb_iff; try tauto;
    split; intros; try tauto; try (destruct H as [[_ _] H]; discriminate).
Qed.

(* the NSEC list holds the NSEC of every owner name (the whole chain) *)
Definition whole_chain (z : zone) (ns : list nsec) : Prop :=
  (forall r, In r ns -> genuine z r) /\ (forall o, In o (owners z) -> exists r, In r ns /\ n_owner r = o).

Definition whole_chainb (z : zone) (ns : list nsec) : bool :=
  forallb (genuineb z) ns
  && forallb (fun o => existsb (fun r => name_eqb (n_owner r) o) ns) (owners z).

Lemma whole_chainb_sound z ns : whole_chainb z ns = true -> whole_chain z ns.
Proof.
  unfold whole_chainb, whole_chain. rewrite andb_true_iff, !forallb_forall. intros [H1 H2]. split.
  - intros r Hr. apply genuineb_sound. now apply H1.
  - intros o Ho. specialize (H2 o Ho). apply existsb_exists in H2. destruct H2 as (r & Hr & E).
    exists r. split; [exact Hr|now apply name_eqb_eq].
Qed.
