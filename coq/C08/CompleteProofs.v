(* C08 — completeness of the model of verify_nsec for proofs that contain what RFC 4035
   3.1.3 prescribes (validator side), and where it is lost. *)
From HV Require Import Lib.Base C08.Model C08.Order C08.SoundProofs.
Open Scope N_scope.

Definition verify_body (q : name) (qt : N) (soa : option name) (rc : rcode)
           (answers : list ans) (ns : list nsec) : proof :=
  let have_answer := match answers with [] => false | _ => true end in
  let is_noerror := match rc with NoError => true | _ => false end in
  let is_nxdomain := match rc with NXDomain => true | _ => false end in
  match find (fun r => name_eqb q (n_owner r)) ns with
  | Some r =>
      if contains (n_types r) qt || contains (n_types r) T_CNAME then Bogus
      else if is_noerror && negb have_answer then Secure else Bogus
  | None =>
      match find_cover soa q ns with
      | None => Bogus
      | Some cov =>
          let wildcard_name := prepend_star (nce_of q soa cov) in
          let wb := wildcard_base q answers ns in
          match find_cover soa wildcard_name ns with
          | Some _ =>
              if is_nxdomain && negb have_answer then Secure
              else if is_noerror && have_answer && no_closer_matches q soa ns wb
                      && isSome (find_cover soa q ns) then Secure else Bogus
          | None =>
              if negb have_answer && is_noerror
                 && existsb (fun r => name_eqb (n_owner r) wildcard_name
                                      && negb (contains (n_types r) qt)
                                      && negb (contains (n_types r) T_CNAME)
                                      && no_closer_matches q soa ns wb) ns
              then Secure else Bogus
          end
      end
  end.

Lemma verify_nsec_eq q qt soa rc answers ns :
  rc <> OtherRc -> (forall s, soa = Some s -> zone_of s q = true) ->
  verify_nsec q qt soa rc answers ns = verify_body q qt soa rc answers ns.
Proof.
  intros Hrc Hs. unfold verify_nsec, verify_body, nce_of, nce0_of.
  destruct rc; [| |contradiction];
    (destruct soa as [s|]; [rewrite (Hs s eq_refl)|]; reflexivity).
Qed.

Lemma find_exists {A} (f : A -> bool) l x : In x l -> f x = true -> exists y, find f l = Some y.
Proof.
  induction l as [|a l IH]; intros Hin Hf; [destruct Hin|]. cbn [find].
  destruct (f a) eqn:E; [eauto|]. destruct Hin as [->|Hin]; [congruence|]. now apply IH.
Qed.

Lemma find_none_all {A} (f : A -> bool) l : (forall x, In x l -> f x = false) -> find f l = None.
Proof.
  induction l as [|a l IH]; intros H; [reflexivity|]. cbn [find].
  rewrite (H a (or_introl eq_refl)). apply IH. intros x Hx. apply H. now right.
Qed.

Section Complete.
  Variable z : zone.
  Hypothesis WF : wf_zone z.
  Variables (q : name) (qt : N) (soa : option name) (ns : list nsec).
  Hypothesis GEN : forall r, In r ns -> genuine z r.
  Hypothesis SOA : soa_ok z soa.

  Lemma soa_zone_of : prefix (z_apex z) q -> forall s, soa = Some s -> zone_of s q = true.
  Proof.
    intros Hz s E. destruct SOA as [H|H]; rewrite H in E; [discriminate|].
    inversion E; subst. now apply zone_of_prefix.
  Qed.

  (* NODATA at an existing owner name: the NSEC of the name is enough *)
  Lemma complete_nodata r :
    In r ns -> n_owner r = q -> ~ has_type z q qt -> ~ has_type z q T_CNAME ->
    verify_nsec q qt soa NoError [] ns = Secure.
  Proof.
    intros Hin Ho Hqt Hcn.
    pose proof (genuine_owner z r (GEN r Hin)) as Hq. rewrite Ho in Hq.
    rewrite verify_nsec_eq; [|discriminate|apply soa_zone_of; now apply owner_apex].
    unfold verify_body.
    destruct (find_exists (fun r => name_eqb q (n_owner r)) ns r Hin) as [r' Hf].
    { apply name_eqb_eq. now symmetry. }
    rewrite Hf. apply find_some in Hf. destruct Hf as [Hin' E]. apply name_eqb_eq in E.
    pose proof (genuine_types z WF r') as Ht.
    destruct (contains (n_types r') qt) eqn:E1.
    { exfalso. apply Hqt. rewrite E. now apply (Ht qt (GEN r' Hin')). }
    destruct (contains (n_types r') T_CNAME) eqn:E2.
    { exfalso. apply Hcn. rewrite E. now apply (Ht T_CNAME (GEN r' Hin')). }
    reflexivity.
  Qed.

  (* NXDOMAIN with the SOA: an NSEC covering the name and one covering the wildcard at the
     closest encloser are enough, whatever else is in the list *)
  Lemma complete_nxdomain c w :
    soa = Some (z_apex z) -> prefix (z_apex z) q -> ~ exists_name z q -> k_star q = false ->
    In c ns -> covers soa q c = true ->
    In w ns -> (forall ce, is_ce z q ce -> covers soa (prepend_star ce) w = true) ->
    verify_nsec q qt soa NXDomain [] ns = Secure.
  Proof.
    intros Hs Hz Hne Hst Hc Hcc Hw Hcw.
    rewrite verify_nsec_eq; [|discriminate|now apply soa_zone_of].
    unfold verify_body.
    rewrite (find_none_all (fun r => name_eqb q (n_owner r)) ns).
    2:{ intros x Hx. destruct (name_eqb q (n_owner x)) eqn:E; [|reflexivity].
        apply name_eqb_eq in E. exfalso. apply Hne. exists q. split; [|apply prefix_refl].
        rewrite E. apply (genuine_owner z x (GEN x Hx)). }
    destruct (find_exists (covers soa q) ns c Hc Hcc) as [cov Hf].
    unfold find_cover at 1. rewrite Hf. apply find_some in Hf. destruct Hf as [Hin Hcov].
    rewrite (nce_with_soa z WF q soa ns GEN SOA cov Hst Hs Hz Hin Hcov Hne).
    pose proof (ce_of_is_ce z WF soa q cov (GEN cov Hin) SOA Hcov) as Hce.
    destruct (find_exists (covers soa (prepend_star (ce_of q cov))) ns w Hw (Hcw _ Hce)) as [w' Hf'].
    unfold find_cover. rewrite Hf'. reflexivity.
  Qed.

End Complete.

(* ------------------------------------------------------------------ *)
(* the wildcard paths                                                  *)
(* ------------------------------------------------------------------ *)

Lemma min_by_key_in {A} (key : A -> N) l x : min_by_key key l = Some x -> In x l.
Proof.
  revert x. induction l as [|a l IH]; intros x H; [discriminate|]. cbn [min_by_key] in H.
  destruct (min_by_key key l) as [y|] eqn:E.
  - destruct (N.leb (key a) (key y)); inversion H; subst; [now left|right; now apply IH].
  - inversion H. now left.
Qed.

Lemma min_by_key_some {A} (key : A -> N) l : l <> [] -> exists x, min_by_key key l = Some x.
Proof.
  destruct l as [|a l]; [contradiction|]. intros _. cbn [min_by_key].
  destruct (min_by_key key l) as [y|]; [destruct (N.leb (key a) (key y))|]; eauto.
Qed.

Lemma filter_map_in {A B} (f : A -> option B) l y :
  In y (filter_map f l) -> exists x, In x l /\ f x = Some y.
Proof.
  induction l as [|a l IH]; intros H; [destruct H|]. cbn [filter_map] in H.
  destruct (f a) as [b|] eqn:E.
  - destruct H as [<-|H]; [exists a; split; [now left|exact E]|].
    destruct (IH H) as (x & Hx & Hf). exists x. split; [now right|exact Hf].
  - destruct (IH H) as (x & Hx & Hf). exists x. split; [now right|exact Hf].
Qed.

Lemma filter_map_nonempty {A B} (f : A -> option B) l x y :
  In x l -> f x = Some y -> filter_map f l <> [].
Proof.
  induction l as [|a l IH]; intros Hin Hf; [destruct Hin|]. cbn [filter_map].
  destruct (f a) eqn:E; [discriminate|]. destruct Hin as [->|Hin]; [congruence|]. now apply IH.
Qed.

Lemma base_name_star c : base_name (prepend_star c) = c.
Proof. unfold base_name, prepend_star. apply removelast_last. Qed.

Lemma is_wildcard_star c : is_wildcard (prepend_star c) = true.
Proof.
  unfold is_wildcard, prepend_star. destruct (c ++ [star]) eqn:E.
  - destruct c; discriminate.
  - rewrite <- E, last_last. reflexivity.
Qed.

Lemma num_labels_star c : num_labels (prepend_star c) = len c.
Proof.
  unfold num_labels. rewrite is_wildcard_star. unfold prepend_star, len.
  rewrite app_length. cbn [length]. lia.
Qed.

Section CompleteWild.
  Variable z : zone.
  Hypothesis WF : wf_zone z.
  Variables (q : name) (soa : option name) (ns : list nsec).
  Hypothesis GEN : forall r, In r ns -> genuine z r.
  Hypothesis SOA : soa_ok z soa.

  (* a subtree without any existing name lies inside one gap of the chain *)
  Lemma subtree_cover cov p t :
    In cov ns -> covers soa q cov = true -> prefix p q -> ~ exists_name z p -> prefix p t ->
    covers soa t cov = true.
  Proof.
    intros Hin Hc Hpq Hne Hpt. pose proof (GEN cov Hin) as G.
    apply covers_spec in Hc. destruct Hc as [Hoq Hc].
    assert (Hot : nlt (n_owner cov) t).
    { destruct (nlt_total (n_owner cov) t) as [H|[H|H]]; [exact H| |]; exfalso; apply Hne;
        exists (n_owner cov); (split; [now apply genuine_owner|]).
      - rewrite H. exact Hpt.
      - apply (convex p t (n_owner cov) q Hpt Hpq (nlt_nle _ _ H) (nlt_nle _ _ Hoq)). }
    unfold covers. rewrite (proj2 (name_gtb_lt _ _) Hot). cbn [andb].
    destruct Hc as [Hqx|Hs].
    - apply orb_true_iff. left. apply name_ltb_lt.
      destruct (nlt_total t (n_next cov)) as [H|[H|H]]; [exact H| |]; exfalso; apply Hne;
        exists (n_next cov); (split; [now apply genuine_next|]).
      + rewrite <- H. exact Hpt.
      + apply (convex p q (n_next cov) t Hpq Hpt (nlt_nle _ _ Hqx) (nlt_nle _ _ H)).
    - apply orb_true_iff. right. rewrite Hs. cbn. now apply name_eqb_eq.
  Qed.

  (* the loop of no_closer_matches succeeds when nothing exists between the wildcard's
     parent and the query name *)
  Lemma closer_loop_true cov w :
    k_star q = false -> In cov ns -> covers soa q cov = true ->
    forall fuel nm, prefix nm q -> nm <> q ->
      (forall p, prefix p nm -> num_labels w < len p -> ~ exists_name z p) ->
      closer_loop fuel soa ns w nm = true.
  Proof.
    intros Hst Hin Hc. induction fuel as [|fuel IH]; intros nm Hp Hnq Hall; [reflexivity|].
    cbn [closer_loop]. destruct (N.ltb (num_labels w) (num_labels nm)) eqn:E; [|reflexivity].
    apply N.ltb_lt in E.
    rewrite (num_labels_plain nm (strict_prefix_not_wild q nm Hst Hp Hnq)) in E.
    pose proof (Hall nm (prefix_refl nm) E) as Hne.
    pose proof (subtree_cover cov nm (prepend_star nm) Hin Hc Hp Hne (prefix_app _ _)) as Hcw.
    destruct (find_exists (covers soa (prepend_star nm)) ns cov Hin Hcw) as [y Hf].
    unfold find_cover. rewrite Hf. apply IH.
    - exact (prefix_trans _ _ _ (base_name_prefix nm) Hp).
    - intros Eq. pose proof (prefix_length _ _ (base_name_prefix nm)) as H1.
      pose proof (prefix_length _ _ Hp) as H2. rewrite Eq in H1.
      apply Hnq. apply prefix_antisym; [exact Hp|]. rewrite <- Eq. apply base_name_prefix.
    - intros p Hpp. apply Hall. exact (prefix_trans _ _ _ Hpp (base_name_prefix nm)).
  Qed.

  (* wildcard-expanded answer (no SOA in such responses): an NSEC covering the query name
     inside the chain suffices when the closest encloser is not the parent of the query name *)
  Lemma complete_wildcard_answer qt answers ce c :
    soa = None -> k_star q = false -> ~ exists_name z q -> is_ce z q ce ->
    len ce + 1 < len q ->
    answers <> [] ->
    (forall r l, In r answers -> a_secure r = true -> a_rrsig r = Some l ->
                 a_name r = q /\ l = len ce) ->
    (exists r, In r answers /\ a_secure r = true /\ a_rrsig r = Some (len ce)) ->
    In c ns -> covers soa q c = true ->
    verify_nsec q qt soa NoError answers ns = Secure.
  Proof.
    intros Hs Hst Hne Hce Hlen Hans Hall (r0 & Hr0 & Hsec0 & Hsig0) Hc Hcc.
    rewrite verify_nsec_eq; [|discriminate|intros s E; rewrite Hs in E; discriminate].
    unfold verify_body.
    rewrite (find_none_all (fun r => name_eqb q (n_owner r)) ns).
    2:{ intros x Hx. destruct (name_eqb q (n_owner x)) eqn:E; [|reflexivity].
        apply name_eqb_eq in E. exfalso. apply Hne. exists q. split; [|apply prefix_refl].
        rewrite E. apply (genuine_owner z x (GEN x Hx)). }
    destruct (find_exists (covers soa q) ns c Hc Hcc) as [cov Hf].
    unfold find_cover at 1. rewrite Hf.
    pose proof Hf as Hf2. apply find_some in Hf2. destruct Hf2 as [Hin Hcov].
    rewrite (nce_without_soa z q soa ns GEN SOA cov Hst Hs Hin Hcov Hne).
    destruct Hce as (Hcp & Hcex & Hcmax).
    assert (Hlq : (length ce + 1 < length q)%nat) by (unfold len in Hlen; lia).
    assert (Hq : q <> []) by (intros ->; cbn in Hlq; lia).
    pose proof (base_name_length q Hq) as Hbl.
    assert (Hbq : base_name q <> q) by (intros E; rewrite E in Hbl; lia).
    assert (Hbne : ~ exists_name z (base_name q)).
    { intros He. pose proof (Hcmax _ (base_name_prefix q) He). lia. }
    (* *.parent(q) is covered *)
    pose proof (subtree_cover cov (base_name q) (prepend_star (base_name q)) Hin Hcov
                  (base_name_prefix q) Hbne (prefix_app _ _)) as Hcw.
    destruct (find_exists (covers soa (prepend_star (base_name q))) ns cov Hin Hcw) as [y Hfy].
    unfold find_cover at 1. rewrite Hfy.
    destruct answers as [|a0 answers']; [contradiction|]. set (answers := a0 :: answers') in *.
    cbn [andb negb]. unfold find_cover. rewrite Hf. cbn [isSome]. rewrite andb_true_r.
    (* the wildcard base name recovered from the answers is *.ce *)
    assert (Hwf : forall r p, In r answers -> wild_from_answer q r = Some p ->
                    p = (len ce, prepend_star ce)).
    { intros r p Hr Hw. unfold wild_from_answer in Hw.
      destruct (a_secure r) eqn:Es; [|discriminate]. cbn [negb] in Hw.
      destruct (a_rrsig r) as [l|] eqn:El; [|discriminate].
      destruct (Hall r l Hr Es El) as [Hn ->]. rewrite Hn in Hw.
      destruct (N.leb (num_labels q) (len ce) || N.leb (num_labels q) (len ce)); [discriminate|].
      destruct (negb (zone_of (trim_to q (len ce)) q)); [discriminate|].
      inversion Hw. f_equal. f_equal. unfold trim_to.
      assert (E : N.ltb (N.of_nat (length q)) (len ce) = false) by (apply N.ltb_ge; unfold len; lia).
      rewrite E. unfold len. rewrite Nat2N.id. symmetry. now apply prefix_is_firstn. }
    assert (Hw0 : wild_from_answer q r0 = Some (len ce, prepend_star ce)).
    { destruct (Hall r0 _ Hr0 Hsec0 Hsig0) as [Hn _]. unfold wild_from_answer.
      rewrite Hsec0, Hsig0, Hn. cbn [negb].
      pose proof (num_labels_ge q) as Hg.
      assert (E : N.leb (num_labels q) (len ce) = false) by (apply N.leb_gt; unfold len in *; lia).
      rewrite E. cbn [orb].
      assert (Et : trim_to q (len ce) = ce).
      { unfold trim_to.
        assert (E2 : N.ltb (N.of_nat (length q)) (len ce) = false) by (apply N.ltb_ge; unfold len; lia).
        rewrite E2. unfold len. rewrite Nat2N.id. symmetry. now apply prefix_is_firstn. }
      rewrite Et, (proj2 (zone_of_prefix ce q) Hcp). reflexivity. }
    assert (Hwb : wildcard_base q answers ns = Some (prepend_star ce)).
    { unfold wildcard_base. unfold answers at 1.
      destruct (min_by_key_some fst (filter_map (wild_from_answer q) answers)
                  (filter_map_nonempty _ _ _ _ Hr0 Hw0)) as [p Hp].
      fold answers. rewrite Hp. cbn [option_map].
      apply min_by_key_in in Hp. apply filter_map_in in Hp. destruct Hp as (r & Hr & Hw).
      now rewrite (Hwf r p Hr Hw). }
    rewrite Hwb. unfold no_closer_matches.
    assert (Hm : (match soa with
                  | Some s => zone_of s (prepend_star ce) && zone_of s q
                  | None => true end) = true) by (rewrite Hs; reflexivity).
    rewrite Hm.
    rewrite num_labels_star, base_name_star, (proj2 (zone_of_prefix ce q) Hcp).
    assert (E1 : N.ltb (num_labels q) (len ce) = false).
    { apply N.ltb_ge. pose proof (num_labels_ge q). unfold len in *. lia. }
    rewrite E1. cbn [negb andb].
    rewrite (closer_loop_true cov (prepend_star ce) Hst Hin Hcov (S (length q)) (base_name q)
               (base_name_prefix q) Hbq).
    - reflexivity.
    - intros p Hp Hl He. rewrite num_labels_star in Hl.
      pose proof (Hcmax p (prefix_trans _ _ _ Hp (base_name_prefix q)) He). unfold len in Hl. lia.
  Qed.

  Lemma cover_not_owner t x :
    In x ns -> covers soa t x = true -> ~ In t (owners z).
  Proof.
    intros Hx Hc Ht. pose proof (GEN x Hx) as G. pose proof (genuine_owner z x G) as Ho.
    apply covers_spec in Hc. destruct Hc as [Hot Hc].
    destruct G as (_ & _ & [[Hlt Hgap]|[Hnx Hmax]]).
    - destruct Hc as [Htx|Hs].
      + apply (Hgap t Ht). auto.
      + destruct SOA as [E|E]; rewrite E in Hs; [discriminate|]. inversion Hs as [E2].
        rewrite <- E2 in Hlt. exact (not_before_apex z WF _ Ho Hlt).
    - exact (nlt_irrefl _ (nlt_nle_trans _ _ _ Hot (Hmax t Ht))).
  Qed.

  Lemma prefix_of_prefixes (a b : name) : prefix a q -> prefix b q -> (length a <= length b)%nat -> prefix a b.
  Proof.
    intros Ha Hb Hl. rewrite (prefix_is_firstn a q Ha), (prefix_is_firstn b q Hb).
    exists (skipn (length a) (firstn (length b) q)).
    rewrite <- (firstn_skipn (length a) (firstn (length b) q)) at 1.
    f_equal. rewrite firstn_firstn. f_equal. lia.
  Qed.

  (* NODATA at the wildcard of the closest encloser (the response carries the SOA): the NSEC
     covering the name and the wildcard's own NSEC suffice, provided no other wildcard NSEC
     enclosing the query name is in the list *)
  Lemma complete_wildcard_nodata qt ce c r :
    soa = Some (z_apex z) -> prefix (z_apex z) q -> k_star q = false ->
    ~ exists_name z q -> is_ce z q ce ->
    In c ns -> covers soa q c = true ->
    In r ns -> n_owner r = prepend_star ce ->
    ~ has_type z (prepend_star ce) qt -> ~ has_type z (prepend_star ce) T_CNAME ->
    (forall r', In r' ns -> is_wildcard (n_owner r') = true ->
                prefix (base_name (n_owner r')) q -> n_owner r' = prepend_star ce) ->
    verify_nsec q qt soa NoError [] ns = Secure.
  Proof.
    intros Hs Hz Hst Hne Hce Hc Hcc Hr Hro Hqt Hcn Honly.
    rewrite verify_nsec_eq; [|discriminate|].
    2:{ intros s E. rewrite Hs in E. inversion E; subst. now apply zone_of_prefix. }
    unfold verify_body.
    rewrite (find_none_all (fun r => name_eqb q (n_owner r)) ns).
    2:{ intros x Hx. destruct (name_eqb q (n_owner x)) eqn:E; [|reflexivity].
        apply name_eqb_eq in E. exfalso. apply Hne. exists q. split; [|apply prefix_refl].
        rewrite E. apply (genuine_owner z x (GEN x Hx)). }
    destruct (find_exists (covers soa q) ns c Hc Hcc) as [cov Hf].
    unfold find_cover at 1. rewrite Hf. apply find_some in Hf. destruct Hf as [Hin Hcov].
    rewrite (nce_with_soa z WF q soa ns GEN SOA cov Hst Hs Hz Hin Hcov Hne).
    pose proof (ce_of_is_ce z WF soa q cov (GEN cov Hin) SOA Hcov) as Hce2.
    rewrite (is_ce_unique z q _ _ Hce2 Hce).
    pose proof (genuine_owner z r (GEN r Hr)) as Hwo. rewrite Hro in Hwo.
    unfold find_cover at 1.
    rewrite (find_none_all (covers soa (prepend_star ce)) ns).
    2:{ intros x Hx. destruct (covers soa (prepend_star ce) x) eqn:E; [|reflexivity].
        exfalso. exact (cover_not_owner _ x Hx E Hwo). }
    cbn [negb andb].
    destruct Hce as (Hcp & Hcex & Hcmax).
    assert (Hcq : ce <> q) by (intros E; apply Hne; now rewrite <- E).
    (* the wildcard recovered from the NSECs is *.ce *)
    assert (Hwb : wildcard_base q [] ns = Some (prepend_star ce)).
    { unfold wildcard_base.
      set (f := fun r0 => is_wildcard (n_owner r0) && zone_of (base_name (n_owner r0)) q).
      assert (Hrf : In r (filter f ns)).
      { apply filter_In. split; [exact Hr|]. unfold f.
        rewrite Hro, is_wildcard_star, base_name_star. cbn. now apply zone_of_prefix. }
      destruct (min_by_key_some (fun r0 => num_labels (n_owner r0)) (filter f ns)) as [x Hx].
      { intros E. rewrite E in Hrf. destruct Hrf. }
      rewrite Hx. cbn [option_map]. apply min_by_key_in in Hx. apply filter_In in Hx.
      destruct Hx as [Hxin Hxf]. unfold f in Hxf. apply andb_true_iff in Hxf.
      destruct Hxf as [H1 H2]. apply zone_of_prefix in H2. now rewrite (Honly x Hxin H1 H2). }
    rewrite Hwb.
    assert (Hncm : no_closer_matches q soa ns (Some (prepend_star ce)) = true).
    { unfold no_closer_matches. rewrite Hs.
      assert (Hac : prefix (z_apex z) ce).
      { apply prefix_of_prefixes; auto. apply Hcmax; [exact Hz|].
        exists (z_apex z). split; [apply WF|apply prefix_refl]. }
      assert (Hzw : zone_of (z_apex z) (prepend_star ce) = true).
      { apply zone_of_prefix. unfold prepend_star. exact (prefix_trans _ _ _ Hac (prefix_app ce [star])). }
      rewrite Hzw, (proj2 (zone_of_prefix _ _) Hz). cbn [andb].
      rewrite num_labels_star, base_name_star, (proj2 (zone_of_prefix ce q) Hcp).
      pose proof (strict_prefix_short q ce Hcp Hcq) as Hl.
      assert (Hq : q <> []).
      { intros E. apply Hcq. apply prefix_antisym; [exact Hcp|]. rewrite E. apply prefix_nil. }
      pose proof (base_name_length q Hq) as Hbl.
      assert (E1 : N.ltb (num_labels q) (len ce) = false).
      { apply N.ltb_ge. pose proof (num_labels_ge q). unfold len in *. lia. }
      rewrite E1. cbn [negb andb]. rewrite <- Hs.
      apply (closer_loop_true cov (prepend_star ce) Hst Hin Hcov).
      - apply base_name_prefix.
      - intros E. rewrite E in Hbl. lia.
      - intros p Hp Hlp He. rewrite num_labels_star in Hlp.
        pose proof (Hcmax p (prefix_trans _ _ _ Hp (base_name_prefix q)) He). unfold len in Hlp. lia. }
    assert (Hex : existsb (fun r0 => name_eqb (n_owner r0) (prepend_star ce)
                                     && negb (contains (n_types r0) qt)
                                     && negb (contains (n_types r0) T_CNAME)
                                     && no_closer_matches q soa ns (Some (prepend_star ce))) ns = true).
    { apply existsb_exists. exists r. split; [exact Hr|].
      rewrite Hncm, (proj2 (name_eqb_eq _ _) Hro). cbn [andb].
      pose proof (genuine_types z WF r) as Ht. rewrite Hro in Ht.
      destruct (contains (n_types r) qt) eqn:E1.
      { exfalso. apply Hqt. now apply (Ht qt (GEN r Hr)). }
      destruct (contains (n_types r) T_CNAME) eqn:E2.
      { exfalso. apply Hcn. now apply (Ht T_CNAME (GEN r Hr)). }
      reflexivity. }
    rewrite Hex. reflexivity.
  Qed.

End CompleteWild.
