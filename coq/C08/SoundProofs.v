(* C08 — soundness of the model of verify_nsec against the semantic specification. *)
From HV Require Import Lib.Base C08.Model C08.Order.
Open Scope N_scope.

(* ------------------------------------------------------------------ *)
(* small facts about the name operations                               *)
(* ------------------------------------------------------------------ *)

Lemma contains_spec ts t : contains ts t = true <-> In t ts.
Proof.
  unfold contains. rewrite existsb_exists. split.
  - intros (x & Hin & E). apply N.eqb_eq in E. now subst.
  - intros H. exists t. split; [exact H|apply N.eqb_refl].
Qed.

Lemma last_in {A} (l : list A) d : l <> [] -> In (last l d) l.
Proof.
  intros H. destruct (exists_last H) as (l' & a & ->). rewrite last_last.
  apply in_or_app. right. now left.
Qed.

Lemma num_labels_le n : num_labels n <= len n.
Proof. unfold num_labels, len. destruct (is_wildcard n); lia. Qed.

Lemma num_labels_ge n : len n <= num_labels n + 1.
Proof. unfold num_labels, len. destruct (is_wildcard n); lia. Qed.

Lemma num_labels_plain n : is_wildcard n = false -> num_labels n = len n.
Proof. unfold num_labels, len. now intros ->. Qed.

(* a proper ancestor of a name without interior "*" does not start with "*" *)
Lemma strict_prefix_not_wild q c :
  k_star q = false -> prefix c q -> c <> q -> is_wildcard c = false.
Proof.
  intros Hs [r ->] Hne. destruct c as [|x c]; [reflexivity|].
  assert (Hr : r <> []) by (intros ->; apply Hne; now rewrite app_nil_r).
  unfold k_star in Hs. rewrite removelast_app in Hs by exact Hr.
  unfold is_wildcard.
  destruct (is_star (last (x :: c) [])) eqn:E; [|reflexivity].
  exfalso. assert (Hin : In (last (x :: c) []) ((x :: c) ++ removelast r)).
  { apply in_or_app. left. apply last_in. discriminate. }
  assert (Hex : existsb is_star ((x :: c) ++ removelast r) = true).
  { apply existsb_exists. eexists. split; [exact Hin|exact E]. }
  congruence.
Qed.

Lemma len_firstn k (n : name) : (k <= length n)%nat -> len (firstn k n) = N.of_nat k.
Proof. intros H. unfold len. rewrite firstn_length, Nat.min_l by lia. reflexivity. Qed.

(* ------------------------------------------------------------------ *)
(* the encloser loop                                                   *)
(* ------------------------------------------------------------------ *)

Definition pick (a b : name) : name := if N.ltb (len a) (len b) then b else a.

Lemma seed_loop_spec q nce seed :
  k_star q = false -> prefix nce q -> nce <> q -> ~ prefix q seed ->
  forall d fuel, let k := (length (lcp q seed) + d)%nat in
    (k <= length seed)%nat -> (k < fuel)%nat ->
    seed_loop fuel q (firstn k seed) nce = pick nce (lcp q seed).
Proof.
  intros Hs Hn Hne Hq.
  assert (Hlq : lcp q seed <> q).
  { intros E. apply Hq. rewrite <- E. apply lcp_prefix_r. }
  assert (Hnl : num_labels nce = len nce).
  { apply num_labels_plain. now apply (strict_prefix_not_wild q). }
  assert (Hll : num_labels (lcp q seed) = len (lcp q seed)).
  { apply num_labels_plain. apply (strict_prefix_not_wild q); auto. apply lcp_prefix_l. }
  induction d as [|d IH]; intros fuel k Hk Hf; subst k.
  - rewrite Nat.add_0_r in *.
    rewrite <- (prefix_is_firstn _ _ (lcp_prefix_r q seed)).
    destruct fuel as [|fuel]; [lia|]. cbn [seed_loop].
    rewrite Hnl, Hll. unfold pick.
    destruct (N.ltb (len nce) (len (lcp q seed))); [|reflexivity].
    now rewrite (proj2 (zone_of_prefix _ _) (lcp_prefix_l q seed)).
  - destruct fuel as [|fuel]; [lia|]. cbn [seed_loop].
    replace (length (lcp q seed) + S d)%nat with (S (length (lcp q seed) + d)) in * by lia.
    remember (length (lcp q seed) + d)%nat as k eqn:Ek.
    destruct (N.ltb (num_labels nce) (num_labels (firstn (S k) seed))) eqn:E.
    + destruct (zone_of (firstn (S k) seed) q) eqn:Ez.
      * exfalso. apply zone_of_prefix in Ez.
        pose proof (lcp_greatest _ _ _ Ez (prefix_firstn (S k) seed)) as Hp.
        apply prefix_length in Hp. rewrite firstn_length, Nat.min_l in Hp by lia. lia.
      * unfold base_name. rewrite removelast_firstn by lia. subst k. apply IH; lia.
    + apply N.ltb_ge in E. unfold pick.
      pose proof (num_labels_ge (firstn (S k) seed)) as Hge.
      rewrite len_firstn in Hge by lia.
      destruct (N.ltb (len nce) (len (lcp q seed))) eqn:E2; [|reflexivity].
      apply N.ltb_lt in E2. unfold len in *. exfalso. lia.
Qed.

Lemma encloser_step_spec q nce seed :
  k_star q = false -> prefix nce q -> nce <> q -> ~ prefix q seed ->
  encloser_step q nce seed = pick nce (lcp q seed).
Proof.
  intros Hs Hn Hne Hq. unfold encloser_step.
  pose proof (prefix_length _ _ (lcp_prefix_r q seed)) as Hl.
  pose proof (seed_loop_spec q nce seed Hs Hn Hne Hq (length seed - length (lcp q seed))
                (S (length seed))) as H.
  cbv zeta in H.
  replace (length (lcp q seed) + (length seed - length (lcp q seed)))%nat with (length seed) in H by lia.
  rewrite firstn_all in H. apply H; lia.
Qed.

Lemma pick_cases a b : (pick a b = a /\ len b <= len a) \/ (pick a b = b /\ len a < len b).
Proof.
  unfold pick. destruct (N.ltb (len a) (len b)) eqn:E.
  - right. split; [reflexivity|now apply N.ltb_lt].
  - left. split; [reflexivity|now apply N.ltb_ge].
Qed.

(* ------------------------------------------------------------------ *)
(* what a genuine NSEC says about the zone                             *)
(* ------------------------------------------------------------------ *)

Lemma covers_spec soa t r :
  covers soa t r = true ->
  nlt (n_owner r) t /\ (nlt t (n_next r) \/ soa = Some (n_next r)).
Proof.
  unfold covers. rewrite andb_true_iff, orb_true_iff, name_gtb_lt, name_ltb_lt.
  intros [H1 [H2|H2]]; split; auto. right. unfold soa_is in H2.
  destruct soa as [s|]; [|discriminate]. apply name_eqb_eq in H2. now subst.
Qed.

Lemma find_cover_some soa t ns r :
  find_cover soa t ns = Some r -> In r ns /\ covers soa t r = true.
Proof. unfold find_cover. apply find_some. Qed.

Section Zone.
  Variable z : zone.
  Hypothesis WF : wf_zone z.

  Definition soa_ok (soa : option name) : Prop := soa = None \/ soa = Some (z_apex z).

  Lemma owner_apex o : In o (owners z) -> prefix (z_apex z) o.
  Proof. destruct WF as (_ & H & _). apply H. Qed.

  Lemma rr_owner o ts : In (o, ts) (z_rrs z) -> In o (owners z).
  Proof. intros H. unfold owners. apply in_map_iff. exists (o, ts). auto. Qed.

  Lemma genuine_owner r : genuine z r -> In (n_owner r) (owners z).
  Proof. intros ((ts & H & _) & _). now apply (rr_owner _ ts). Qed.

  Lemma genuine_next r : genuine z r -> In (n_next r) (owners z).
  Proof. intros (_ & H & _). exact H. Qed.

  Lemma genuine_types r t :
    genuine z r -> (contains (n_types r) t = true <-> has_type z (n_owner r) t).
  Proof.
    intros ((ts & Hin & Hty) & _). rewrite Hty. split.
    - intros H. exists ts. auto.
    - intros (ts' & Hin' & H). destruct WF as (_ & _ & Hf & _).
      now rewrite (Hf _ _ _ Hin Hin').
  Qed.

  (* the wrap rule cannot fire for an NSEC that is not the last one *)
  Lemma not_before_apex o : In o (owners z) -> ~ nlt o (z_apex z).
  Proof.
    intros Ho H. apply owner_apex, prefix_nle in Ho.
    exact (nlt_irrefl _ (nle_nlt_trans _ _ _ Ho H)).
  Qed.

  (* a name covered by a genuine NSEC exists only as an empty non-terminal above the
     NSEC's next name *)
  Lemma cover_exists soa t r :
    genuine z r -> soa_ok soa -> covers soa t r = true -> exists_name z t ->
    prefix t (n_next r) /\ t <> n_next r.
  Proof.
    intros G Hs Hc (w & Hw & Hp). apply covers_spec in Hc. destruct Hc as [Hot Hc].
    pose proof (genuine_owner r G) as Ho.
    destruct G as (_ & Hnx & [[Hlt Hgap]|[Hnx' Hmax]]).
    - destruct Hc as [Htx|Hsoa].
      + assert (How : nlt (n_owner r) w) by exact (nlt_nle_trans _ _ _ Hot (prefix_nle _ _ Hp)).
        destruct (nlt_total w (n_next r)) as [H|[H|H]].
        * exfalso. apply (Hgap w Hw). auto.
        * subst w. split; [exact Hp|]. intros E. rewrite E in Htx. exact (nlt_irrefl _ Htx).
        * split.
          -- apply (convex t t (n_next r) w (prefix_refl t) Hp (nlt_nle _ _ Htx) (nlt_nle _ _ H)).
          -- intros E. rewrite E in Htx. exact (nlt_irrefl _ Htx).
      + exfalso. destruct Hs as [Hs|Hs]; rewrite Hs in Hsoa; [discriminate|].
        inversion Hsoa as [E]. rewrite <- E in Hlt. exact (not_before_apex _ Ho Hlt).
    - exfalso. pose proof (Hmax w Hw) as Hle.
      pose proof (nlt_nle_trans _ _ _ Hot (prefix_nle _ _ Hp)) as H1.
      exact (nlt_irrefl _ (nlt_nle_trans _ _ _ H1 Hle)).
  Qed.

  (* without an SOA name only names inside the zone can be covered *)
  Lemma cover_in_zone t r :
    genuine z r -> covers None t r = true -> prefix (z_apex z) t.
  Proof.
    intros G Hc. apply covers_spec in Hc. destruct Hc as [Hot [Htx|Hc]]; [|discriminate].
    pose proof (genuine_owner r G) as Ho. pose proof (genuine_next r G) as Hx.
    apply (convex (z_apex z) (n_owner r) t (n_next r)); auto using owner_apex, nlt_nle.
  Qed.

  (* every existing ancestor of a covered name is an ancestor of the NSEC's owner or of
     its next name *)
  Lemma cover_encloser soa q r c :
    genuine z r -> soa_ok soa -> covers soa q r = true ->
    prefix c q -> exists_name z c -> prefix c (n_owner r) \/ prefix c (n_next r).
  Proof.
    intros G Hs Hc Hcq (w & Hw & Hp). apply covers_spec in Hc. destruct Hc as [Hot Hc].
    pose proof (genuine_owner r G) as Ho.
    assert (Hle : nle w (n_owner r) -> prefix c (n_owner r)).
    { intros H. apply (convex c w (n_owner r) q Hp Hcq H (nlt_nle _ _ Hot)). }
    destruct G as (_ & Hnx & [[Hlt Hgap]|[Hnx' Hmax]]).
    - destruct Hc as [Hqx|Hsoa].
      + destruct (nlt_total (n_owner r) w) as [H|[H|H]].
        * right. assert (Hxw : nle (n_next r) w).
          { apply not_nlt_nle. intros H2. apply (Hgap w Hw). auto. }
          apply (convex c q (n_next r) w Hcq Hp (nlt_nle _ _ Hqx) Hxw).
        * left. apply Hle. rewrite H. apply nle_refl.
        * left. apply Hle. now apply nlt_nle.
      + exfalso. destruct Hs as [Hs|Hs]; rewrite Hs in Hsoa; [discriminate|].
        inversion Hsoa as [E]. rewrite <- E in Hlt. exact (not_before_apex _ Ho Hlt).
    - left. apply Hle. now apply Hmax.
  Qed.

  (* the closest encloser read off the covering NSEC *)
  Definition ce_of (q : name) (r : nsec) : name := pick (lcp q (n_owner r)) (lcp q (n_next r)).

  Lemma ce_of_is_ce soa q r :
    genuine z r -> soa_ok soa -> covers soa q r = true -> is_ce z q (ce_of q r).
  Proof.
    intros G Hs Hc. unfold ce_of.
    pose proof (genuine_owner r G) as Ho. pose proof (genuine_next r G) as Hx.
    assert (Hmax : forall c', prefix c' q -> exists_name z c' ->
              (length c' <= length (lcp q (n_owner r)))%nat \/
              (length c' <= length (lcp q (n_next r)))%nat).
    { intros c' Hp He. destruct (cover_encloser soa q r c' G Hs Hc Hp He) as [H|H].
      - left. apply prefix_length. now apply lcp_greatest.
      - right. apply prefix_length. now apply lcp_greatest. }
    destruct (pick_cases (lcp q (n_owner r)) (lcp q (n_next r))) as [[-> Hl]|[-> Hl]];
      unfold len in Hl; (split; [apply lcp_prefix_l|split]).
    - exists (n_owner r). split; [exact Ho|apply lcp_prefix_r].
    - intros c' Hp He. destruct (Hmax c' Hp He); lia.
    - exists (n_next r). split; [exact Hx|apply lcp_prefix_r].
    - intros c' Hp He. destruct (Hmax c' Hp He); lia.
  Qed.

  Lemma is_ce_unique q c c' : is_ce z q c -> is_ce z q c' -> c = c'.
  Proof.
    intros (Hp & He & Hm) (Hp' & He' & Hm').
    apply (prefix_same_length c c' q Hp Hp').
    pose proof (Hm c' Hp' He'). pose proof (Hm' c Hp He). lia.
  Qed.

  (* a cut or DNAME above a covered name is the owner of the covering NSEC *)
  Lemma cover_occluder soa q r d :
    genuine z r -> soa_ok soa -> covers soa q r = true -> ~ exists_name z q ->
    In d (owners z) -> prefix d q -> (is_cut z d \/ is_dname z d) -> n_owner r = d.
  Proof.
    intros G Hs Hc Hne Hd Hp Hcut.
    pose proof (genuine_owner r G) as Ho.
    assert (Hdq : d <> q).
    { intros ->. apply Hne. exists q. split; [exact Hd|apply prefix_refl]. }
    assert (Hpo : prefix d (n_owner r)).
    { destruct (cover_encloser soa q r d G Hs Hc Hp) as [H|H]; [|exact H|].
      - exists d. split; [exact Hd|apply prefix_refl].
      - (* d an ancestor of next but not of owner: then owner < d <= q ... *)
        apply covers_spec in Hc. destruct Hc as [Hot Hc].
        destruct (nlt_total d (n_owner r)) as [H1|[H1|H1]].
        + apply (convex d d (n_owner r) q (prefix_refl d) Hp (nlt_nle _ _ H1) (nlt_nle _ _ Hot)).
        + rewrite H1. apply prefix_refl.
        + exfalso. pose proof (prefix_nlt d q Hp Hdq) as Hdq'.
          destruct G as (_ & _ & [[Hlt Hgap]|[Hnx' Hmax]]).
          * destruct Hc as [Hqx|Hsoa].
            -- apply (Hgap d Hd). split; [exact H1|exact (nlt_trans _ _ _ Hdq' Hqx)].
            -- destruct Hs as [Hs|Hs]; rewrite Hs in Hsoa; [discriminate|].
               inversion Hsoa as [E]. rewrite <- E in Hlt. exact (not_before_apex _ Ho Hlt).
          * exact (nlt_irrefl _ (nlt_nle_trans _ _ _ H1 (Hmax d Hd))). }
    destruct WF as (_ & _ & _ & _ & Hbelow). exact (Hbelow d (n_owner r) Hcut Ho Hpo).
  Qed.

End Zone.

(* ------------------------------------------------------------------ *)
(* inversion of verify_nsec = Secure                                   *)
(* ------------------------------------------------------------------ *)

Definition nce0_of (q : name) (soa : option name) : name :=
  match soa with Some s => s | None => base_name q end.

Definition nce_of (q : name) (soa : option name) (cov : nsec) : name :=
  encloser_step q (encloser_step q (nce0_of q soa) (n_owner cov)) (n_next cov).

Inductive secure_path (q : name) (qt : N) (soa : option name) (rc : rcode)
          (answers : list ans) (ns : list nsec) : Prop :=
| PathDirect r :
    In r ns -> q = n_owner r ->
    contains (n_types r) qt = false -> contains (n_types r) T_CNAME = false ->
    rc = NoError -> answers = [] -> secure_path q qt soa rc answers ns
| PathNx cov w :
    find_cover soa q ns = Some cov ->
    find_cover soa (prepend_star (nce_of q soa cov)) ns = Some w ->
    rc = NXDomain -> answers = [] -> secure_path q qt soa rc answers ns
| PathWildAnswer cov :
    find_cover soa q ns = Some cov ->
    no_closer_matches q soa ns (wildcard_base q answers ns) = true ->
    rc = NoError -> answers <> [] -> secure_path q qt soa rc answers ns
| PathWildNodata cov r :
    find_cover soa q ns = Some cov ->
    In r ns -> n_owner r = prepend_star (nce_of q soa cov) ->
    contains (n_types r) qt = false -> contains (n_types r) T_CNAME = false ->
    rc = NoError -> answers = [] -> secure_path q qt soa rc answers ns.

Lemma verify_secure_inv q qt soa rc answers ns :
  verify_nsec q qt soa rc answers ns = Secure ->
  (forall s, soa = Some s -> prefix s q) /\ secure_path q qt soa rc answers ns.
Proof.
  unfold verify_nsec. intros H.
  assert (Hrc : rc <> OtherRc) by (intros ->; discriminate).
  assert (Hsoa : forall s, soa = Some s -> prefix s q).
  { intros s ->. destruct rc; try discriminate;
      (destruct (zone_of s q) eqn:E; [now apply zone_of_prefix|discriminate]). }
  split; [exact Hsoa|].
  assert (H' :
    match find (fun r => name_eqb q (n_owner r)) ns with
    | Some r =>
        if contains (n_types r) qt || contains (n_types r) T_CNAME then Bogus
        else if match rc with NoError => true | _ => false end
                && negb match answers with [] => false | _ => true end then Secure else Bogus
    | None =>
        match find_cover soa q ns with
        | None => Bogus
        | Some cov =>
            match find_cover soa (prepend_star (nce_of q soa cov)) ns with
            | Some _ =>
                if match rc with NXDomain => true | _ => false end
                   && negb match answers with [] => false | _ => true end then Secure
                else if match rc with NoError => true | _ => false end
                        && match answers with [] => false | _ => true end
                        && no_closer_matches q soa ns (wildcard_base q answers ns)
                        && isSome (find_cover soa q ns) then Secure else Bogus
            | None =>
                if negb match answers with [] => false | _ => true end
                   && match rc with NoError => true | _ => false end
                   && existsb (fun r => name_eqb (n_owner r) (prepend_star (nce_of q soa cov))
                                 && negb (contains (n_types r) qt)
                                 && negb (contains (n_types r) T_CNAME)
                                 && no_closer_matches q soa ns (wildcard_base q answers ns)) ns
                then Secure else Bogus
            end
        end
    end = Secure).
  { unfold nce_of, nce0_of. destruct rc; [| |contradiction];
      (destruct soa as [s|]; [destruct (zone_of s q); [exact H|discriminate]|exact H]). }
  clear H. destruct (find (fun r => name_eqb q (n_owner r)) ns) as [r|] eqn:Ed.
  - apply find_some in Ed. destruct Ed as [Hin He]. apply name_eqb_eq in He.
    destruct (contains (n_types r) qt || contains (n_types r) T_CNAME) eqn:Ec; [discriminate|].
    apply orb_false_iff in Ec. destruct Ec as [Ec1 Ec2].
    destruct rc; try discriminate. destruct answers; [|discriminate].
    now apply (PathDirect _ _ _ _ _ _ r).
  - destruct (find_cover soa q ns) as [cov|] eqn:Ecov; [|discriminate].
    destruct (find_cover soa (prepend_star (nce_of q soa cov)) ns) as [w|] eqn:Ew.
    + destruct rc; [| |contradiction].
      * destruct answers as [|a answers]; [discriminate|]. cbn [negb andb] in H'.
        destruct (no_closer_matches q soa ns (wildcard_base q (a :: answers) ns)) eqn:En;
          [|discriminate].
        apply (PathWildAnswer _ _ _ _ _ _ cov); auto. discriminate.
      * destruct answers as [|a answers]; [|discriminate].
        now apply (PathNx _ _ _ _ _ _ cov w).
    + destruct answers as [|a answers]; [|discriminate].
      destruct rc; try discriminate. cbn [negb andb] in H'.
      destruct (existsb _ ns) eqn:Ex; [|discriminate].
      apply existsb_exists in Ex. destruct Ex as (r & Hin & Hr).
      rewrite !andb_true_iff, !negb_true_iff in Hr. destruct Hr as [[[H1 H2] H3] _].
      apply name_eqb_eq in H1.
      now apply (PathWildNodata _ _ _ _ _ _ cov r).
Qed.

(* ------------------------------------------------------------------ *)
(* the known classes, negated                                          *)
(* ------------------------------------------------------------------ *)

Lemma known_zero q qt soa rc answers ns :
  known_code q qt soa rc answers ns = 0 ->
  k_deleg q qt ns = false /\ k_ent q soa ns = false /\ k_nosoa q soa rc answers ns = false
  /\ k_closer q soa rc answers ns = false /\ k_star q = false.
Proof.
  unfold known_code.
  destruct (k_deleg q qt ns); [discriminate|].
  destruct (k_ent q soa ns); [discriminate|].
  destruct (k_nosoa q soa rc answers ns); [discriminate|].
  destruct (k_closer q soa rc answers ns); [discriminate|].
  destruct (k_star q); [discriminate|]. auto.
Qed.

Lemma tested_self q : In q (tested q).
Proof. now left. Qed.

Lemma tested_wild q c : prefix c q -> In (prepend_star c) (tested q).
Proof.
  intros Hp. right. apply in_map. unfold prefixes. apply in_map_iff.
  exists (length c). split; [symmetry; now apply prefix_is_firstn|].
  apply in_seq. apply prefix_length in Hp. lia.
Qed.

Lemma strict_prefixb_true p n : prefix p n -> p <> n -> strict_prefixb p n = true.
Proof.
  intros Hp Hne. unfold strict_prefixb. rewrite (proj2 (zone_of_prefix p n) Hp). cbn.
  destruct (name_eqb p n) eqn:E; [|reflexivity]. apply name_eqb_eq in E. contradiction.
Qed.

Lemma base_name_prefix q : prefix (base_name q) q.
Proof.
  unfold base_name. destruct q as [|x q]; [apply prefix_nil|].
  exists [last (x :: q) []]. apply app_removelast_last. discriminate.
Qed.

Lemma base_name_length q : q <> [] -> S (length (base_name q)) = length q.
Proof.
  intros H. unfold base_name. pose proof (app_removelast_last [] H) as E.
  apply (f_equal (@length _)) in E. rewrite app_length in E. cbn [length] in E. unfold label in *. lia.
Qed.

Lemma pick_len a b : len (pick a b) = N.max (len a) (len b).
Proof. destruct (pick_cases a b) as [[-> H]|[-> H]]; lia. Qed.

Lemma nlt_nil_false a : ~ nlt a [].
Proof. unfold nlt, name_cmp. destruct a; cbn; discriminate. Qed.

Section Zone2.
  Variable z : zone.
  Hypothesis WF : wf_zone z.
  Variables (q : name) (qt : N) (soa : option name) (ns : list nsec).
  Hypothesis GEN : forall r, In r ns -> genuine z r.
  Hypothesis SOA : soa_ok z soa.

  Lemma no_ent t r :
    k_ent q soa ns = false -> In t (tested q) -> In r ns -> covers soa t r = true ->
    ~ exists_name z t.
  Proof.
    intros Hk Ht Hr Hc He.
    destruct (cover_exists z WF soa t r (GEN r Hr) SOA Hc He) as [Hp Hne].
    assert (k_ent q soa ns = true); [|congruence].
    unfold k_ent. apply existsb_exists. exists t. split; [exact Ht|].
    apply existsb_exists. exists r. split; [exact Hr|].
    rewrite Hc. now apply strict_prefixb_true.
  Qed.

  Lemma no_deleg r :
    k_deleg q qt ns = false -> In r ns -> prefix (n_owner r) q ->
    ~ ((is_cut z (n_owner r) /\ ~ (n_owner r = q /\ qt = T_DS))
       \/ (is_dname z (n_owner r) /\ n_owner r <> q)).
  Proof.
    intros Hk Hr Hp Hbad.
    assert (k_deleg q qt ns = true); [|congruence].
    unfold k_deleg. apply existsb_exists. exists r. split; [exact Hr|].
    rewrite (proj2 (zone_of_prefix _ _) Hp). cbn [andb].
    pose proof (genuine_types z WF r) as Ht.
    destruct Hbad as [[(_ & Hns & Hsoa) Hds]|[(_ & Hdn) Hne]].
    - apply orb_true_iff. left.
      rewrite (proj2 (Ht T_NS (GEN r Hr)) Hns).
      destruct (contains (n_types r) T_SOA) eqn:E.
      { exfalso. apply Hsoa. now apply (Ht T_SOA (GEN r Hr)). }
      cbn. apply negb_true_iff. apply andb_false_iff.
      destruct (name_eqb (n_owner r) q) eqn:E1; [|now left]. right.
      apply name_eqb_eq in E1. apply N.eqb_neq. intros E2. apply Hds. auto.
    - apply orb_true_iff. right.
      rewrite (proj2 (Ht T_DNAME (GEN r Hr)) Hdn). cbn. apply negb_true_iff.
      destruct (name_eqb (n_owner r) q) eqn:E1; [|reflexivity].
      apply name_eqb_eq in E1. contradiction.
  Qed.

  (* direct match *)
  Lemma direct_sound r :
    k_deleg q qt ns = false -> In r ns -> q = n_owner r ->
    contains (n_types r) qt = false -> contains (n_types r) T_CNAME = false ->
    prefix (z_apex z) q /\ ~ occluded z q qt /\ lacks z q qt.
  Proof.
    intros Hk Hr Eq Hqt Hcn.
    pose proof (genuine_owner z r (GEN r Hr)) as Ho.
    pose proof (genuine_types z WF r) as Ht.
    pose proof (no_deleg r Hk Hr) as Hnd. rewrite <- Eq in Ho, Hnd.
    split; [now apply owner_apex|]. split.
    - intros (d & Hp & Hbad).
      assert (Hd : q = d).
      { destruct WF as (_ & _ & _ & _ & Hbelow). apply (Hbelow d q); auto.
        destruct Hbad as [[H _]|[H _]]; auto. }
      subst d. exact (Hnd (prefix_refl _) Hbad).
    - split; [exact Ho|]. split; intros H; rewrite Eq in H; apply (Ht _ (GEN r Hr)) in H; congruence.
  Qed.

  (* facts shared by the three paths that start from an NSEC covering the query name *)
  Lemma cover_common cov :
    k_deleg q qt ns = false -> k_ent q soa ns = false ->
    (forall s, soa = Some s -> prefix s q) ->
    find_cover soa q ns = Some cov ->
    In cov ns /\ covers soa q cov = true /\ ~ exists_name z q /\ prefix (z_apex z) q
    /\ ~ occluded z q qt /\ is_ce z q (ce_of q cov).
  Proof.
    intros Hk1 Hk2 Hs Hf. apply find_cover_some in Hf. destruct Hf as [Hin Hc].
    pose proof (GEN cov Hin) as G.
    assert (Hne : ~ exists_name z q) by exact (no_ent q cov Hk2 (tested_self q) Hin Hc).
    assert (Hz : prefix (z_apex z) q).
    { destruct SOA as [E|E]; [|now apply Hs]. rewrite E in Hc. now apply (cover_in_zone z WF q cov). }
    repeat split; auto.
    - intros (d & Hp & Hbad).
      assert (Hd : In d (owners z)) by (destruct Hbad as [[(H & _) _]|[(H & _) _]]; exact H).
      assert (Ho : n_owner cov = d).
      { apply (cover_occluder z WF soa q cov d); auto. destruct Hbad as [[H _]|[H _]]; auto. }
      subst d. exact (no_deleg cov Hk1 Hin Hp Hbad).
    - now apply (ce_of_is_ce z WF soa).
    - now apply (ce_of_is_ce z WF soa).
    - now apply (ce_of_is_ce z WF soa).
  Qed.

  (* the encloser the loop computes *)
  Lemma nce_with_soa cov :
    k_star q = false -> soa = Some (z_apex z) -> prefix (z_apex z) q ->
    In cov ns -> covers soa q cov = true -> ~ exists_name z q ->
    nce_of q soa cov = ce_of q cov.
  Proof.
    intros Hst -> Hz Hin Hc Hne. unfold nce_of, nce0_of, ce_of.
    pose proof (GEN cov Hin) as G.
    pose proof (genuine_owner z cov G) as Ho. pose proof (genuine_next z cov G) as Hx.
    assert (Hqo : ~ prefix q (n_owner cov)).
    { intros H. apply Hne. now exists (n_owner cov). }
    assert (Hqx : ~ prefix q (n_next cov)).
    { intros H. apply Hne. now exists (n_next cov). }
    assert (Haq : z_apex z <> q).
    { intros E. apply Hne. exists (z_apex z). split; [apply WF|]. rewrite E. apply prefix_refl. }
    rewrite (encloser_step_spec q (z_apex z) (n_owner cov) Hst Hz Haq Hqo).
    assert (E1 : pick (z_apex z) (lcp q (n_owner cov)) = lcp q (n_owner cov)).
    { pose proof (lcp_greatest _ _ _ Hz (owner_apex z WF _ Ho)) as Hp.
      destruct (pick_cases (z_apex z) (lcp q (n_owner cov))) as [[-> Hl]|[-> Hl]]; [|reflexivity].
      apply (prefix_same_length _ _ q Hz (lcp_prefix_l _ _)).
      apply prefix_length in Hp. unfold len in Hl. lia. }
    rewrite E1. apply encloser_step_spec; auto.
    - apply lcp_prefix_l.
    - intros E. apply Hqo. rewrite <- E at 1. apply lcp_prefix_r.
  Qed.

  Lemma strict_prefix_short c : prefix c q -> c <> q -> len c <= len (base_name q).
  Proof.
    intros Hp Hne. assert (Hq : q <> []).
    { intros ->. destruct Hp as [r E]. destruct c; [now apply Hne|discriminate]. }
    pose proof (base_name_length q Hq) as Hl. pose proof (prefix_length _ _ Hp) as Hl2.
    assert (length c <> length q).
    { intros E. apply Hne. apply (prefix_same_length c q q Hp (prefix_refl q) E). }
    unfold len. lia.
  Qed.

  Lemma nce_without_soa cov :
    k_star q = false -> soa = None ->
    In cov ns -> covers soa q cov = true -> ~ exists_name z q ->
    nce_of q soa cov = base_name q.
  Proof.
    intros Hst -> Hin Hc Hne. unfold nce_of, nce0_of.
    pose proof (GEN cov Hin) as G.
    pose proof (genuine_owner z cov G) as Ho. pose proof (genuine_next z cov G) as Hx.
    assert (Hqo : ~ prefix q (n_owner cov)).
    { intros H. apply Hne. now exists (n_owner cov). }
    assert (Hqx : ~ prefix q (n_next cov)).
    { intros H. apply Hne. now exists (n_next cov). }
    assert (Hq : q <> []).
    { intros ->. apply covers_spec in Hc. destruct Hc as [H _]. exact (nlt_nil_false _ H). }
    assert (Hb : base_name q <> q).
    { intros E. pose proof (base_name_length q Hq) as Hl. rewrite E in Hl. lia. }
    assert (Hstep : forall seed, ~ prefix q seed -> encloser_step q (base_name q) seed = base_name q).
    { intros seed Hs. rewrite (encloser_step_spec q (base_name q) seed Hst (base_name_prefix q) Hb Hs).
      destruct (pick_cases (base_name q) (lcp q seed)) as [[-> _]|[_ Hl]]; [reflexivity|].
      exfalso. assert (Hne' : lcp q seed <> q).
      { intros E. apply Hs. rewrite <- E at 1. apply lcp_prefix_r. }
      pose proof (strict_prefix_short _ (lcp_prefix_l q seed) Hne'). lia. }
    rewrite (Hstep _ Hqo). now apply Hstep.
  Qed.

End Zone2.

(* ------------------------------------------------------------------ *)
(* soundness outside the known classes                                 *)
(* ------------------------------------------------------------------ *)

Lemma ce_of_len q cov : len (ce_of q cov) = maxlcp q cov.
Proof. unfold ce_of, maxlcp. apply pick_len. Qed.

Lemma existsb_false_in {A} (f : A -> bool) l x : existsb f l = false -> In x l -> f x = false.
Proof.
  intros H Hin. destruct (f x) eqn:E; [|reflexivity].
  assert (existsb f l = true) by (apply existsb_exists; eauto). congruence.
Qed.

Lemma trim_to_short q l : l < num_labels q ->
  trim_to q l = firstn (N.to_nat l) q /\ len (trim_to q l) = l /\ prefix (trim_to q l) q.
Proof.
  intros H. pose proof (num_labels_le q) as Hle. unfold trim_to.
  assert (E : N.ltb (len q) l = false) by (apply N.ltb_ge; lia).
  unfold len in E. rewrite E. split; [reflexivity|]. split.
  - rewrite len_firstn; [lia|]. unfold len in Hle. lia.
  - apply prefix_firstn.
Qed.

Theorem sound z q qt soa rc answers ns :
  wf_zone z -> (forall r, In r ns -> genuine z r) -> genuine_answers z answers ->
  soa_ok z soa -> known_code q qt soa rc answers ns = 0 ->
  verify_nsec q qt soa rc answers ns = Secure -> claim_holds z q qt rc answers.
Proof.
  intros WF GEN GA SOA HK HV.
  apply known_zero in HK. destruct HK as (K1 & K2 & K3 & K4 & K5).
  apply verify_secure_inv in HV. destruct HV as [Hs P].
  destruct P as [r Hin Eq Hqt Hcn Hrc Han | cov w Hf Hw Hrc Han | cov Hf Hncm Hrc Han
                | cov r Hf Hin Eo Hqt Hcn Hrc Han].
  - (* direct match: NODATA at the name *)
    subst rc answers.
    destruct (direct_sound z WF q qt ns GEN r K1 Hin Eq Hqt Hcn) as (H1 & H2 & H3).
    split; [exact H1|]. split; [exact H2|]. left. exact H3.
  - (* NXDOMAIN *)
    subst rc answers.
    destruct (cover_common z WF q qt soa ns GEN SOA cov K1 K2 Hs Hf)
      as (Hin & Hc & Hne & Hz & Hocc & Hce).
    assert (Hceq : ce_of q cov <> q).
    { intros E. apply Hne. rewrite <- E. apply Hce. }
    assert (Hnce : nce_of q soa cov = ce_of q cov).
    { pose proof SOA as SOA2. destruct SOA2 as [E|E].
      - rewrite (nce_without_soa z q soa ns GEN SOA cov K5 E Hin Hc Hne).
        subst soa. unfold k_nosoa in K3. rewrite Hf in K3. apply N.ltb_ge in K3.
        rewrite <- ce_of_len in K3.
        destruct Hce as (Hp & _).
        pose proof (strict_prefix_short q (ce_of q cov) Hp Hceq) as Hl.
        assert (Hq : q <> []).
        { intros E. apply Hceq. apply prefix_antisym; [exact Hp|]. rewrite E. apply prefix_nil. }
        pose proof (base_name_length q Hq) as Hb.
        symmetry. apply (prefix_same_length _ _ q Hp (base_name_prefix q)).
        unfold len in *. lia.
      - now apply (nce_with_soa z WF q soa ns GEN SOA cov K5 E Hz Hin Hc Hne). }
    rewrite Hnce in Hw. apply find_cover_some in Hw. destruct Hw as [Hwin Hwc].
    split; [exact Hz|]. split; [exact Hocc|]. split; [exact Hne|].
    intros c Hc'. rewrite (is_ce_unique z q c _ Hc' Hce).
    apply (no_ent z WF q soa ns GEN SOA _ w K2); auto. apply tested_wild. apply Hce.
  - (* wildcard-expanded answer *)
    subst rc.
    destruct (cover_common z WF q qt soa ns GEN SOA cov K1 K2 Hs Hf)
      as (Hin & Hc & Hne & Hz & Hocc & Hce).
    split; [exact Hz|]. split; [exact Hocc|].
    destruct answers as [|a0 answers']; [contradiction|]. set (answers := a0 :: answers') in *.
    split; [exact Hne|]. intros r l Hr Hw Hn.
    destruct Hw as (Hsec & Hsig & Hl). rewrite Hn in Hl.
    destruct (trim_to_short q l Hl) as (Et & Elen & Hpre).
    (* the wildcard exists, so its parent is an existing ancestor of q *)
    assert (Hex : exists_name z (trim_to q l)).
    { exists (prepend_star (trim_to q l)). split; [|apply prefix_app].
      rewrite <- Hn at 1. apply (GA r l Hr). unfold wild_rrsig. rewrite Hn. auto. }
    assert (Hle : l <= maxlcp q cov).
    { rewrite <- ce_of_len, <- Elen. destruct Hce as (_ & _ & Hmax).
      pose proof (Hmax _ Hpre Hex). unfold len. lia. }
    assert (Hge : maxlcp q cov <= l).
    { unfold k_closer in K4. rewrite Hf, Hncm in K4. cbn [andb] in K4.
      pose proof (existsb_false_in _ _ r K4 Hr) as Hb. cbv beta in Hb.
      rewrite Hsec, Hsig, Hn, (proj2 (name_eqb_eq q q) eq_refl) in Hb. cbn [andb] in Hb.
      rewrite (proj2 (N.ltb_lt _ _) Hl) in Hb. cbn [andb] in Hb. now apply N.ltb_ge in Hb. }
    assert (E : trim_to q l = ce_of q cov).
    { apply (prefix_same_length _ _ q Hpre); [apply Hce|].
      pose proof (ce_of_len q cov) as E2. unfold len in *. lia. }
    rewrite E. exact Hce.
  - (* NODATA at the wildcard *)
    subst rc answers.
    destruct (cover_common z WF q qt soa ns GEN SOA cov K1 K2 Hs Hf)
      as (Hcin & Hc & Hne & Hz & Hocc & Hce).
    pose proof (genuine_owner z r (GEN r Hin)) as Ho. rewrite Eo in Ho.
    pose proof (genuine_types z WF r) as Ht.
    assert (Hnce : is_ce z q (nce_of q soa cov)).
    { pose proof SOA as SOA2. destruct SOA2 as [E|E].
      - rewrite (nce_without_soa z q soa ns GEN SOA cov K5 E Hcin Hc Hne) in *.
        split; [apply base_name_prefix|]. split.
        + exists (prepend_star (base_name q)). split; [exact Ho|apply prefix_app].
        + intros c' Hp He. assert (Hcq : c' <> q) by (intros ->; contradiction).
          pose proof (strict_prefix_short q c' Hp Hcq) as Hl. unfold len in Hl. lia.
      - rewrite (nce_with_soa z WF q soa ns GEN SOA cov K5 E Hz Hcin Hc Hne). exact Hce. }
    split; [exact Hz|]. split; [exact Hocc|]. right. right. split; [exact Hne|].
    intros c Hc'. rewrite (is_ce_unique z q c _ Hc' Hnce). left.
    split; [exact Ho|]. rewrite <- Eo.
    split; intros H; apply (Ht _ (GEN r Hin)) in H; congruence.
Qed.

(* ------------------------------------------------------------------ *)
(* two classes are exact: inside them the claim is false                *)
(* ------------------------------------------------------------------ *)

Lemma deleg_exact z q qt rc answers ns :
  wf_zone z -> (forall r, In r ns -> genuine z r) ->
  k_deleg q qt ns = true -> ~ claim_holds z q qt rc answers.
Proof.
  intros WF GEN Hk (_ & Hocc & _). apply Hocc.
  unfold k_deleg in Hk. apply existsb_exists in Hk. destruct Hk as (r & Hin & H).
  apply andb_true_iff in H. destruct H as [Hp H]. apply zone_of_prefix in Hp.
  pose proof (genuine_owner z r (GEN r Hin)) as Ho.
  pose proof (genuine_types z WF r) as Ht.
  exists (n_owner r). split; [exact Hp|].
  apply orb_true_iff in H. destruct H as [H|H].
  - left. rewrite !andb_true_iff, !negb_true_iff in H. destruct H as [[Hns Hsoa] Hds].
    split.
    + split; [exact Ho|]. split; [now apply (Ht T_NS (GEN r Hin))|].
      intros Hs. apply (Ht T_SOA (GEN r Hin)) in Hs. congruence.
    + intros [E1 E2]. rewrite E1, E2, (proj2 (name_eqb_eq q q) eq_refl), N.eqb_refl in Hds.
      discriminate.
  - right. rewrite andb_true_iff, negb_true_iff in H. destruct H as [Hdn Hne].
    split; [split; [exact Ho|now apply (Ht T_DNAME (GEN r Hin))]|].
    intros E. rewrite E, (proj2 (name_eqb_eq q q) eq_refl) in Hne. discriminate.
Qed.

Lemma closer_exact z q qt soa rc answers ns :
  wf_zone z -> (forall r, In r ns -> genuine z r) -> soa_ok z soa ->
  k_closer q soa rc answers ns = true -> ~ claim_holds z q qt rc answers.
Proof.
  intros WF GEN SOA Hk (_ & _ & Hcl). unfold k_closer in Hk.
  destruct rc; try discriminate.
  destruct (find_cover soa q ns) as [cov|] eqn:Hf; [|discriminate].
  apply andb_true_iff in Hk. destruct Hk as [_ Hk].
  apply existsb_exists in Hk. destruct Hk as (r & Hr & H).
  destruct answers as [|a0 answers']; [destruct Hr|]. destruct Hcl as [_ Hcl].
  rewrite !andb_true_iff in H. destruct H as [[Hsec Hn] H]. apply name_eqb_eq in Hn.
  destruct (a_rrsig r) as [l|] eqn:Hsig; [|discriminate].
  apply andb_true_iff in H. destruct H as [Hl Hm]. apply N.ltb_lt in Hl. apply N.ltb_lt in Hm.
  assert (Hw : wild_rrsig r l) by (unfold wild_rrsig; auto).
  pose proof (Hcl r l Hr Hw Hn) as Hce.
  apply find_cover_some in Hf. destruct Hf as [Hin Hc].
  pose proof (ce_of_is_ce z WF soa q cov (GEN cov Hin) SOA Hc) as Hce2.
  pose proof (is_ce_unique z q _ _ Hce Hce2) as E.
  rewrite Hn in Hl. destruct (trim_to_short q l Hl) as (_ & Elen & _).
  rewrite E, ce_of_len in Elen. lia.
Qed.
