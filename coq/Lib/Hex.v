(* Hex strings -> byte lists: lets the harness ship byte strings as Coq string
   literals (fast to parse) instead of list-of-N notations. *)
From Coq Require Import String Ascii.
From HV Require Import Lib.Base.
Open Scope N_scope.

Definition hexval (c : ascii) : N :=
  let n := N_of_ascii c in
  if (48 <=? n) && (n <=? 57) then n - 48
  else if (97 <=? n) && (n <=? 102) then n - 87
  else if (65 <=? n) && (n <=? 70) then n - 55
  else 0.

Fixpoint unhex (s : string) : list N :=
  match s with
  | String a (String b s') => (hexval a * 16 + hexval b) :: unhex s'
  | _ => []
  end.

Example unhex_ex : unhex "00ff1aB2"%string = [0; 255; 26; 178].
Proof. reflexivity. Qed.
