(* Byte strings for the correspondence cases, packed 7 bytes (little-endian) per primitive
   63-bit integer: far cheaper for Coq to parse than string or list-of-N literals.
   Only used by the Check.v glue files (evaluation), never in a theorem. *)
From Coq Require Import Uint63.
From HV Require Import Lib.Base.

Inductive pbytes := PB (n : N) (ws : list int).

Fixpoint bits_to_N (k : nat) (b : int) : N :=
  match k with
  | O => 0%N
  | S k' => let r := bits_to_N k' (b >> 1)%uint63 in
            if is_zero (b land 1)%uint63 then N.double r else N.succ_double r
  end.
Fixpoint unpack_word (k : nat) (w : int) : list N :=
  match k with O => [] | S k' => bits_to_N 8 (w land 255)%uint63 :: unpack_word k' (w >> 8)%uint63 end.
Fixpoint unpack_words (n : nat) (ws : list int) : list N :=
  match ws with
  | [] => []
  | w :: ws' => let k := Nat.min n 7 in unpack_word k w ++ unpack_words (n - k) ws'
  end.
Definition unpack (p : pbytes) : list N := match p with PB n ws => unpack_words (N.to_nat n) ws end.

Example unpack_ex : unpack (PB 9 [1108152157446%uint63; 2312%uint63]) = [6; 5; 4; 3; 2; 1; 0; 8; 9]%N.
Proof. vm_compute. reflexivity. Qed.
