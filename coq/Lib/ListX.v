From HV Require Import Lib.Base.

Lemma firstn_firstn_skipn {A} (X : list A) k c :
  firstn k X ++ firstn c (skipn k X) = firstn (k + c) X.
Proof.
  revert X; induction k as [|k IH]; intros X; cbn [firstn skipn app plus].
  - reflexivity.
  - destruct X as [|x X]; cbn [firstn skipn app].
    + now rewrite firstn_nil.
    + now rewrite IH.
Qed.

Lemma skipn_skipn_add {A} (X : list A) k c : skipn c (skipn k X) = skipn (k + c) X.
Proof.
  revert X; induction k as [|k IH]; intros X; cbn [skipn plus]; [reflexivity|].
  destruct X as [|x X]; [now rewrite skipn_nil|]. cbn [skipn]. apply IH.
Qed.

Lemma firstn_app_le {A} (a b : list A) n : (n <= length a)%nat -> firstn n (a ++ b) = firstn n a.
Proof. intros H. rewrite firstn_app. replace (n - length a)%nat with O by lia. cbn. now rewrite app_nil_r. Qed.

Lemma skipn_app_le {A} (a b : list A) n : (n <= length a)%nat -> skipn n (a ++ b) = skipn n a ++ b.
Proof. intros H. rewrite skipn_app. replace (n - length a)%nat with O by lia. reflexivity. Qed.
