(* Shared prelude for all models: stdlib only. *)
From Coq Require Export List NArith ZArith Arith Bool Lia.
Export ListNotations.
Global Arguments N.add : simpl never.
Global Arguments N.sub : simpl never.
Global Arguments N.mul : simpl never.
Global Arguments N.eqb : simpl never.
Global Arguments N.ltb : simpl never.
Global Arguments N.leb : simpl never.
Global Arguments N.div : simpl never.
Global Arguments N.modulo : simpl never.

Definition byte := N.
Definition byteb (b : N) : bool := N.ltb b 256.
Definition bytes_ok (l : list N) : Prop := Forall (fun b => (b < 256)%N) l.

(* indices (as N) of the list elements on which [f] is false: used by the
   correspondence check so that Coq prints a (normally empty) list of numbers. *)
Fixpoint bad_idx {A} (f : A -> bool) (i : N) (l : list A) : list N :=
  match l with
  | [] => []
  | x :: l' => if f x then bad_idx f (N.succ i) l' else i :: bad_idx f (N.succ i) l'
  end.

Fixpoint list_eqb {A} (eqb : A -> A -> bool) (a b : list A) : bool :=
  match a, b with
  | [], [] => true
  | x :: a', y :: b' => eqb x y && list_eqb eqb a' b'
  | _, _ => false
  end.

Lemma list_eqb_eq {A} (eqb : A -> A -> bool) :
  (forall x y, eqb x y = true <-> x = y) ->
  forall a b, list_eqb eqb a b = true <-> a = b.
Proof.
  intros H a; induction a as [|x a IH]; intros [|y b]; cbn [list_eqb]; try (split; congruence).
  rewrite andb_true_iff, H, IH. split; [intros [-> ->]; reflexivity|intros E; inversion E; auto].
Qed.

Definition bytes_eqb := list_eqb N.eqb.
Lemma bytes_eqb_eq a b : bytes_eqb a b = true <-> a = b.
Proof. apply list_eqb_eq. intros; apply N.eqb_eq. Qed.

Definition option_eqb {A} (eqb : A -> A -> bool) (a b : option A) : bool :=
  match a, b with
  | None, None => true
  | Some x, Some y => eqb x y
  | _, _ => false
  end.
