(* C03 — what emit_iter / emit_message_parts do under a size limit, on top of the frame invariant *)
From HV Require Import Lib.Base Lib.ListX C03.Model C03.Inv.
Open Scope N_scope.

Section IterFacts.
  Context {A : Type} (emit1 : A -> enc -> res enc).
  Hypothesis emit1_inv : forall b x, wfb b -> rinv (fun s => s) b (emit1 x b).

  (* straight-line emission: no rollback, first error wins *)
  Fixpoint emit_all (xs : list A) (st : enc) : res enc :=
    match xs with
    | [] => Ok st
    | x :: xs' => do s1 <- emit1 x st; emit_all xs' s1
    end.

  (* declarative description of one section under a limit *)
  Inductive section_run (xs : list A) (st : enc) : nat -> bool -> enc -> Prop :=
  | run_all st' :
      emit_all xs st = Ok st' -> section_run xs st (length xs) false st'
  | run_cut k x sm sf :
      (k < length xs)%nat -> nth_error xs k = Some x ->
      emit_all (firstn k xs) st = Ok sm ->
      emit1 x sm = Err EMax sf ->
      (* the dropped record leaves no trace but the compressed-name counter *)
      section_run xs st k true (set_cnt sm (cnt sf)).

  Lemma emit_all_wfb : forall xs st st', wfb st -> emit_all xs st = Ok st' -> wfb st' /\ inv st st'.
  Proof.
    induction xs as [|x xs IH]; intros st st' Hw E; cbn [emit_all] in E.
    - inversion E; subst. split; [exact Hw|apply inv_refl; exact Hw].
    - pose proof (emit1_inv st x Hw) as H1.
      destruct (emit1 x st) as [s1|] eqn:E1; cbn [bind] in E; [|discriminate].
      cbn [rinv] in H1. destruct (IH s1 st' (inv_wfb _ _ H1) E) as [W I].
      split; [exact W|eapply inv_trans; eassumption].
  Qed.

  Lemma emit_iter_sound : forall xs c st c' t st',
    wfb st -> emit_iter emit1 xs c st = Ok (c', t, st') ->
    exists k, c' = (c + k)%nat /\ section_run xs st k t st'.
  Proof.
    induction xs as [|x xs IH]; intros c st c' t st' Hw E; cbn [emit_iter] in E.
    - inversion E; subst. exists O. split; [lia|]. apply (run_all [] st' st'). reflexivity.
    - pose proof (emit1_inv st x Hw) as H1.
      destruct (emit1 x st) as [s1|e sf] eqn:E1; cbn [rinv] in H1.
      + destruct (IH (S c) s1 c' t st' (inv_wfb _ _ H1) E) as (k & Hc & Hr).
        exists (S k). split; [lia|].
        inversion Hr as [st2 Ea|k2 x2 sm sf2 Hk Hn Ea Ef]; subst.
        * apply (run_all (x :: xs) st st'). cbn [emit_all]. rewrite E1. exact Ea.
        * apply (run_cut (x :: xs) st (S k) x2 sm sf2); [cbn [length]; lia|exact Hn| |exact Ef].
          cbn [firstn emit_all]. rewrite E1. exact Ea.
      + destruct e; try discriminate. inversion E; subst.
        exists O. split; [lia|].
        rewrite (rollback_restores st sf Hw H1).
        apply (run_cut (x :: xs) st O x st sf); [cbn [length]; lia|reflexivity|reflexivity|exact E1].
  Qed.

  Lemma section_run_wfb xs st k t st' : wfb st -> section_run xs st k t st' -> wfb st' /\ inv st st'.
  Proof.
    intros Hw Hr. inversion Hr as [st2 Ea|k2 x2 sm sf2 Hk Hn Ea Ef]; subst.
    - eapply emit_all_wfb; eassumption.
    - destruct (emit_all_wfb _ _ _ Hw Ea) as [W I]. split; [exact W|exact I].
  Qed.

  Lemma section_run_kept xs st k t st' : section_run xs st k t st' ->
    (k <= length xs)%nat /\ (t = false <-> k = length xs).
  Proof.
    intros Hr. inversion Hr; subst; split; try lia; split; intros; try reflexivity; try discriminate; lia.
  Qed.

  (* other errors are not masked *)
  Lemma emit_iter_err : forall xs c st e sf,
    emit_iter emit1 xs c st = Err e sf -> e <> EMax.
  Proof.
    induction xs as [|x xs IH]; intros c st e sf E; cbn [emit_iter] in E; [discriminate|].
    destruct (emit1 x st) as [s1|e1 sf1]; [eapply IH; exact E|].
    destruct e1; try discriminate; inversion E; subst; discriminate.
  Qed.
End IterFacts.

(* ---- the message level ---- *)

Lemma count16_ok r c t st : count16 r = Ok (c, t, st) -> r = Ok (c, t, st).
Proof.
  unfold count16. destruct r as [[[c0 t0] s0]|]; cbn [bind]; [|discriminate].
  destruct (65535 <? N.of_nat c0); [discriminate|]. intros E; inversion E; reflexivity.
Qed.

Lemma wfb_new L : wfb (enc_new L).
Proof. unfold wfb, enc_new; cbn. repeat split; [lia|constructor]. Qed.

(* Everything emit_message returns satisfies: physical buffer = logical message, within the limit *)
Lemma emit_message_wfb m st0 st : wfb st0 -> emit_message m st0 = Ok st -> wfb st /\ maxsz st = maxsz st0.
Proof.
  intros Hw E. unfold emit_message in E.
  destruct (place_inv st0 st0 12 (inv_refl _ Hw)) as [HP1 HP2].
  destruct (place 12 st0) as [[pl s0]|] eqn:EP; cbn [bind] in E; [|discriminate].
  cbn [rinv snd] in HP1. destruct (HP2 _ _ eq_refl) as [Epl Eoff].
  destruct (emit_iter emit_query (mqueries m) 0 s0) as [[[qd qt] s1]|] eqn:E1; cbn [bind] in E; [|discriminate].
  destruct qt; [discriminate|]. destruct (65535 <? N.of_nat qd); [discriminate|].
  destruct (emit_iter_sound emit_query emit_query_inv _ _ _ _ _ _ (inv_wfb _ _ HP1) E1) as (k1 & _ & R1).
  destruct (section_run_wfb _ emit_query_inv _ _ _ _ _ (inv_wfb _ _ HP1) R1) as [W1 I1].
  destruct (count16 (emit_iter emit_rec (manswers m) 0 s1)) as [[[an t1] s2]|] eqn:E2; cbn [bind] in E; [|discriminate].
  apply count16_ok in E2.
  destruct (emit_iter_sound emit_rec (fun b x => emit_rec_inv b x) _ _ _ _ _ _ W1 E2) as (k2 & _ & R2).
  destruct (section_run_wfb _ (fun b x => emit_rec_inv b x) _ _ _ _ _ W1 R2) as [W2 I2].
  destruct (count16 (emit_iter emit_rec (mauth m) 0 s2)) as [[[ns t2] s3]|] eqn:E3; cbn [bind] in E; [|discriminate].
  apply count16_ok in E3.
  destruct (emit_iter_sound emit_rec (fun b x => emit_rec_inv b x) _ _ _ _ _ _ W2 E3) as (k3 & _ & R3).
  destruct (section_run_wfb _ (fun b x => emit_rec_inv b x) _ _ _ _ _ W2 R3) as [W3 I3].
  destruct (count16 (emit_iter emit_rec (madd m) 0 s3)) as [[[ar t3] s4]|] eqn:E4; cbn [bind] in E; [|discriminate].
  apply count16_ok in E4.
  destruct (emit_iter_sound emit_rec (fun b x => emit_rec_inv b x) _ _ _ _ _ _ W3 E4) as (k4 & _ & R4).
  destruct (section_run_wfb _ (fun b x => emit_rec_inv b x) _ _ _ _ _ W3 R4) as [W4 I4].
  destruct (count16 (emit_iter emit_rec (opt_list (medns m)) 0 s4)) as [[[ar2 t4] s5]|] eqn:E5; cbn [bind] in E; [|discriminate].
  apply count16_ok in E5.
  destruct (emit_iter_sound emit_rec (fun b x => emit_rec_inv b x) _ _ _ _ _ _ W4 E5) as (k5 & _ & R5).
  destruct (section_run_wfb _ (fun b x => emit_rec_inv b x) _ _ _ _ _ W4 R5) as [W5 I5].
  destruct (count16 (emit_iter emit_rec (opt_list (msig m)) 0 s5)) as [[[ar3 t5] s6]|] eqn:E6; cbn [bind] in E; [|discriminate].
  apply count16_ok in E6.
  destruct (emit_iter_sound emit_rec (fun b x => emit_rec_inv b x) _ _ _ _ _ _ W5 E6) as (k6 & _ & R6).
  destruct (section_run_wfb _ (fun b x => emit_rec_inv b x) _ _ _ _ _ W5 R6) as [W6 I6].
  assert (I06 : inv s0 s6).
  { eapply inv_trans; [exact I1|]. eapply inv_trans; [exact I2|]. eapply inv_trans; [exact I3|].
    eapply inv_trans; [exact I4|]. eapply inv_trans; [exact I5|]. exact I6. }
  assert (Iall : inv st0 s6) by (eapply inv_trans; [exact HP1|exact I06]).
  pose proof (replace_inv st0 s6 pl (header_bytes m (mtc m || t1 || t2 || t3 || t4 || t5) qd an ns (ar + ar2 + ar3)) Iall) as HR.
  assert (Hlen : length (header_bytes m (mtc m || t1 || t2 || t3 || t4 || t5) qd an ns (ar + ar2 + ar3)) = 12%nat) by reflexivity.
  rewrite Hlen in HR. subst pl.
  assert (Hoff : (off st0 + 12 <= off s6)%nat).
  { destruct I06 as (_ & _ & _ & Hx & _). lia. }
  specialize (HR (Nat.le_refl _) Hoff). rewrite E in HR. cbn [rinv] in HR.
  split; [eapply inv_wfb; exact HR|]. destruct HR as (_ & _ & HR & _). exact HR.
Qed.

(* Declarative description of a whole size-limited encoding: each section keeps a prefix,
   straight-line encoded from the state the previous section left; header counts are the kept
   counts; TC is the original TC or-ed with "something was dropped". *)
Definition msg_run (m : msg) (st0 st : enc) : Prop :=
  exists s0 s1 s2 s3 s4 s5 s6 ka t1 kn t2 kr t3 ke t4 ks t5,
    place 12 st0 = Ok (off st0, s0) /\
    section_run emit_query (mqueries m) s0 (length (mqueries m)) false s1 /\
    section_run emit_rec (manswers m) s1 ka t1 s2 /\
    section_run emit_rec (mauth m) s2 kn t2 s3 /\
    section_run emit_rec (madd m) s3 kr t3 s4 /\
    section_run emit_rec (opt_list (medns m)) s4 ke t4 s5 /\
    section_run emit_rec (opt_list (msig m)) s5 ks t5 s6 /\
    replace (off st0)
      (header_bytes m (mtc m || t1 || t2 || t3 || t4 || t5) (length (mqueries m)) ka kn (kr + ke + ks)) s6 = Ok st.

Lemma emit_message_sound m st0 st : wfb st0 -> emit_message m st0 = Ok st -> msg_run m st0 st.
Proof.
  intros Hw E. unfold emit_message in E.
  destruct (place_inv st0 st0 12 (inv_refl _ Hw)) as [HP1 HP2].
  destruct (place 12 st0) as [[pl s0]|] eqn:EP; cbn [bind] in E; [|discriminate].
  cbn [rinv snd] in HP1. destruct (HP2 _ _ eq_refl) as [Epl Eoff]. subst pl.
  destruct (emit_iter emit_query (mqueries m) 0 s0) as [[[qd qt] s1]|] eqn:E1; cbn [bind] in E; [|discriminate].
  destruct qt; [discriminate|]. destruct (65535 <? N.of_nat qd); [discriminate|].
  destruct (emit_iter_sound emit_query emit_query_inv _ _ _ _ _ _ (inv_wfb _ _ HP1) E1) as (k1 & Hk1 & R1).
  destruct (section_run_wfb _ emit_query_inv _ _ _ _ _ (inv_wfb _ _ HP1) R1) as [W1 I1].
  destruct (section_run_kept _ _ _ _ _ _ R1) as [_ Hq]. destruct Hq as [Hq _]. specialize (Hq eq_refl).
  cbn in Hk1. subst qd k1.
  destruct (count16 (emit_iter emit_rec (manswers m) 0 s1)) as [[[an t1] s2]|] eqn:E2; cbn [bind] in E; [|discriminate].
  apply count16_ok in E2.
  destruct (emit_iter_sound emit_rec (fun b x => emit_rec_inv b x) _ _ _ _ _ _ W1 E2) as (k2 & Hk2 & R2).
  destruct (section_run_wfb _ (fun b x => emit_rec_inv b x) _ _ _ _ _ W1 R2) as [W2 I2].
  destruct (count16 (emit_iter emit_rec (mauth m) 0 s2)) as [[[ns t2] s3]|] eqn:E3; cbn [bind] in E; [|discriminate].
  apply count16_ok in E3.
  destruct (emit_iter_sound emit_rec (fun b x => emit_rec_inv b x) _ _ _ _ _ _ W2 E3) as (k3 & Hk3 & R3).
  destruct (section_run_wfb _ (fun b x => emit_rec_inv b x) _ _ _ _ _ W2 R3) as [W3 I3].
  destruct (count16 (emit_iter emit_rec (madd m) 0 s3)) as [[[ar t3] s4]|] eqn:E4; cbn [bind] in E; [|discriminate].
  apply count16_ok in E4.
  destruct (emit_iter_sound emit_rec (fun b x => emit_rec_inv b x) _ _ _ _ _ _ W3 E4) as (k4 & Hk4 & R4).
  destruct (section_run_wfb _ (fun b x => emit_rec_inv b x) _ _ _ _ _ W3 R4) as [W4 I4].
  destruct (count16 (emit_iter emit_rec (opt_list (medns m)) 0 s4)) as [[[ar2 t4] s5]|] eqn:E5; cbn [bind] in E; [|discriminate].
  apply count16_ok in E5.
  destruct (emit_iter_sound emit_rec (fun b x => emit_rec_inv b x) _ _ _ _ _ _ W4 E5) as (k5 & Hk5 & R5).
  destruct (section_run_wfb _ (fun b x => emit_rec_inv b x) _ _ _ _ _ W4 R5) as [W5 I5].
  destruct (count16 (emit_iter emit_rec (opt_list (msig m)) 0 s5)) as [[[ar3 t5] s6]|] eqn:E6; cbn [bind] in E; [|discriminate].
  apply count16_ok in E6.
  destruct (emit_iter_sound emit_rec (fun b x => emit_rec_inv b x) _ _ _ _ _ _ W5 E6) as (k6 & Hk6 & R6).
  cbn in Hk2, Hk3, Hk4, Hk5, Hk6. subst an ns ar ar2 ar3.
  unfold msg_run. exists s0, s1, s2, s3, s4, s5, s6, k2, t1, k3, t2, k4, t3, k5, t4, k6, t5.
  repeat split; assumption.
Qed.
