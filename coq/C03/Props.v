(* C03 — property theorems about the size-limited encoder model (Model.v).
   Statements only; proofs are applications of lemmas from Inv.v / Trunc.v. *)
From HV Require Import Lib.Base C03.Model C03.Inv C03.Trunc C02.RecRt C02.MsgRt.
Open Scope N_scope.

(* Whatever the message and the limit, a successful encoding is never longer than the limit. *)
Theorem C03_len_le_limit : forall m L b, encode L m = OBytes b -> (length b <= L)%nat.
Proof.
  intros m L b E. unfold encode in E.
  destruct (emit_message m (enc_new L)) as [st|] eqn:Em; [|discriminate]. inversion E; subst.
  destruct (emit_message_wfb m _ _ (wfb_new L) Em) as [(W1 & W2 & _) Hm]. cbn in Hm. lia.
Qed.
Print Assumptions C03_len_le_limit.

(* Nothing trails the message: the byte string handed back ends exactly at the encoder's logical
   end of message (this is what failed before the rollback fix: stale bytes of a dropped record). *)
Theorem C03_no_trailing_bytes : forall m L st,
  emit_message m (enc_new L) = Ok st -> length (buf st) = off st.
Proof. intros m L st E. destruct (emit_message_wfb m _ _ (wfb_new L) E) as [(W1 & _) _]. now symmetry. Qed.
Print Assumptions C03_no_trailing_bytes.

(* A record that does not fit leaves no trace: the rollback gives back the state before it,
   except for the compressed-name counter (which can only switch compression off later). *)
Theorem C03_rollback_restores : forall b r sf,
  wfb b -> emit_rec r b = Err EMax sf ->
  rollback (off b) (length (ptrs b)) sf = set_cnt b (cnt sf).
Proof.
  intros b r sf Hw E. apply rollback_restores; [exact Hw|].
  pose proof (emit_rec_inv b r Hw) as H. rewrite E in H. exact H.
Qed.
Print Assumptions C03_rollback_restores.

(* One section under a limit: the kept records are a prefix, encoded exactly as a straight-line
   (limit-free logic) encoding of that prefix from the same state; the count returned is their
   number; truncated = "a record was dropped". *)
Theorem C03_section_keeps_prefix : forall recs st c c' t st',
  wfb st -> emit_iter emit_rec recs c st = Ok (c', t, st') ->
  exists k, c' = (c + k)%nat /\ (k <= length recs)%nat /\ (t = false <-> k = length recs) /\
            section_run emit_rec recs st k t st'.
Proof.
  intros recs st c c' t st' Hw E.
  destruct (emit_iter_sound emit_rec (fun b x => emit_rec_inv b x) _ _ _ _ _ _ Hw E) as (k & Hc & R).
  destruct (section_run_kept _ _ _ _ _ _ R) as [Hk Ht]. exists k. auto.
Qed.
Print Assumptions C03_section_keeps_prefix.

(* The whole message: header counts = kept records, each section a prefix, TC = original TC or
   "something dropped", question section never truncated (else the encoding fails). *)
Theorem C03_message_truncation : forall m L st,
  emit_message m (enc_new L) = Ok st -> msg_run m (enc_new L) st.
Proof. intros m L st E. apply emit_message_sound; [apply wfb_new|exact E]. Qed.
Print Assumptions C03_message_truncation.

(* The property's central clause, on the model: for every message and every limit, a successful
   encoding reads back — header counts = records present, every question, a PREFIX of every section
   (each record field by field, names through the compression pointers), TC = original TC or
   "something was dropped", last record ending exactly at the end of the output.
   (Proved in C02/MsgRt.v on top of this directory's frame invariant and section_run.) *)
Theorem C03_truncated_output_reads_back : forall m L b,
  msg_wf m -> encode L m = OBytes b -> msg_readable b m /\ (length b <= L)%nat.
Proof.
  intros m L b Hw E. split; [|eapply C03_len_le_limit; exact E].
  unfold encode in E. destruct (emit_message m (enc_new L)) as [st|] eqn:Em; [|discriminate].
  inversion E; subst. apply (emit_message_rt m L st Hw Em).
Qed.
Print Assumptions C03_truncated_output_reads_back.

(* Errors other than "does not fit" are reported, never turned into a truncation. *)
Theorem C03_other_errors_propagate : forall recs c st e sf,
  emit_iter emit_rec recs c st = Err e sf -> e <> EMax.
Proof. intros. eapply emit_iter_err; eassumption. Qed.
Print Assumptions C03_other_errors_propagate.

(* Server clause: MessageResponse::encode encodes under server_limit (or falls back to a bare
   12-byte SERVFAIL header), so a UDP reply never exceeds max(512, advertised payload) and any
   reply never exceeds 65535. *)
Theorem C03_server_reply_bounded : forall tcp adv m b,
  match adv with Some p => p < 65536 | None => True end -> (* the OPT class field is a u16 *)
  encode (N.to_nat (server_limit tcp adv)) m = OBytes b ->
  N.of_nat (length b) <= 65535 /\
  (tcp = false -> N.of_nat (length b) <= N.max 512 (match adv with Some p => p | None => 0 end)).
Proof.
  intros tcp adv m b Hadv E. apply C03_len_le_limit in E.
  unfold server_limit in E. destruct tcp; [split; [lia|discriminate]|].
  destruct adv as [p|]; (split; [lia|intros _; lia]).
Qed.
Print Assumptions C03_server_reply_bounded.

(* Non-vacuity: a message whose second answer does not fit under limit 60. *)
Definition ex_name : list (list byte) := [[119; 119; 119]; [101; 120]].
Definition ex_msg : msg :=
  mkMsg 7 128 false 0 [mkQ ex_name 1 1]
        [mkRec ex_name 1 1 300 [PBytes [1; 2; 3; 4]]; mkRec ex_name 16 1 300 [PBytes [5; 104; 101; 108; 108; 111]]]
        [] [] None None.
Example C03_example_truncates :
  exists b, encode 40 ex_msg = OBytes b /\ length b = 40%nat /\ nth 2 b 0 = 130 /\ nth 7 b 0 = 1.
Proof. eexists. split; [vm_compute; reflexivity|]. repeat split. Qed.
