(* C03 — correspondence glue *)
From HV Require Import Lib.Base Lib.Pack C03.Model.
Open Scope N_scope.

Definition err_tag (e : err) : N :=
  match e with EMax => 1 | ELabelTooLong => 2 | ENameTooLong => 3 | ECharData => 4 | ETooMany => 5 end.

(* limit, message, implementation outcome: tag 0 = Ok with bytes, otherwise error class *)
Inductive case :=
| CEnc (limit : N) (m : msg) (tag : N) (out : pbytes)
| CSrv (tcp : bool) (advertised : option N) (reply_len : N).

Definition check (c : case) : bool :=
  match c with
  | CEnc limit m tag out =>
      match encode (N.to_nat limit) m with
      | OBytes b => N.eqb tag 0 && bytes_eqb b (unpack out)
      | OErr e => N.eqb tag (err_tag e)
      end
  | CSrv tcp adv len => (12 <=? len) && (len <=? server_limit tcp adv)
  end.

Definition bad (cs : list case) : list N := bad_idx check 0 cs.

Definition show (c : case) :=
  match c with
  | CEnc limit m _ _ =>
      match encode (N.to_nat limit) m with
      | OBytes b => (0, b)
      | OErr e => (err_tag e, [])
      end
  | CSrv tcp adv len => (server_limit tcp adv, [])
  end.
