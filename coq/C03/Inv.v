(* C03 — the frame invariant of the encoder: everything a record emission does happens at or
   above the offset it started from, inside the size limit, with the physical buffer ending at the
   logical offset.  Consequences: rollback restores the pre-record state exactly (up to the
   compressed-name counter), outputs never exceed the limit, nothing trails the message. *)
From HV Require Import Lib.Base Lib.ListX C03.Model.
Open Scope N_scope.

(* base state [b] = encoder state at a record boundary *)
Definition wfb (b : enc) : Prop :=
  off b = length (buf b) /\ (off b <= maxsz b)%nat /\
  Forall (fun p => (fst p < off b)%nat) (ptrs b).

Definition inv (b s : enc) : Prop :=
  off s = length (buf s) /\ (off s <= maxsz s)%nat /\ maxsz s = maxsz b /\
  (off b <= off s)%nat /\
  firstn (off b) (buf s) = buf b /\
  firstn (length (ptrs b)) (ptrs s) = ptrs b /\
  Forall (fun p => (fst p < off s)%nat) (ptrs s).

Lemma inv_refl b : wfb b -> inv b b.
Proof.
  intros (H1 & H2 & H3). unfold inv. repeat split; auto.
  - rewrite H1. apply firstn_all.
  - apply firstn_all.
Qed.

Lemma inv_wfb b s : inv b s -> wfb s.
Proof. intros (H1 & H2 & _ & _ & _ & _ & H7). repeat split; auto. Qed.

Lemma inv_trans a b s : inv a b -> inv b s -> inv a s.
Proof.
  intros (A1 & A2 & A3 & A4 & A5 & A6 & A7) (B1 & B2 & B3 & B4 & B5 & B6 & B7).
  unfold inv. repeat split; auto; try lia; try congruence.
  - rewrite <- A5, <- B5. rewrite firstn_firstn. f_equal. lia.
  - rewrite <- A6 at 2. rewrite <- B6. rewrite firstn_firstn. f_equal.
    assert (length (ptrs a) <= length (ptrs b))%nat; [|lia].
    rewrite <- A6. rewrite firstn_length. lia.
Qed.

(* predicate lifted to results: holds of the final state and of the failure state *)
Definition rinv {A} (proj : A -> enc) (b : enc) (r : res A) : Prop :=
  match r with Ok a => inv b (proj a) | Err _ s => inv b s end.

Lemma rinv_bind {A B} (pa : A -> enc) (pb : B -> enc) b (r : res A) (f : A -> res B) :
  rinv pa b r -> (forall a, inv b (pa a) -> rinv pb b (f a)) -> rinv pb b (bind r f).
Proof. destruct r as [a|e s]; cbn; auto. Qed.

Notation idp := (fun s : enc => s) (only parsing).

(* ---- primitives ---- *)
Lemma buf_write_end (bf : list byte) data :
  buf_write bf (length bf) data = bf ++ data.
Proof.
  unfold buf_write. rewrite firstn_all. rewrite skipn_all2 by lia. now rewrite app_nil_r.
Qed.

Lemma emit_slice_inv b s data : inv b s -> rinv idp b (emit_slice data s).
Proof.
  intros Hi. pose proof Hi as (H1 & H2 & H3 & H4 & H5 & H6 & H7). unfold emit_slice.
  destruct (Nat.ltb_spec (maxsz s) (off s + length data)) as [Hlt|Hge]; cbn [rinv]; [exact Hi|].
  unfold inv; cbn [set_off set_buf buf off maxsz ptrs].
  replace (buf_write (buf s) (off s) data) with (buf s ++ data) by (rewrite H1; symmetry; apply buf_write_end).
  rewrite app_length.
  repeat split; auto; try lia.
  - rewrite firstn_app_le by lia. exact H5.
  - eapply Forall_impl; [|exact H7]. cbn. intros; lia.
Qed.

Lemma emit_u8_inv b s v : inv b s -> rinv idp b (emit_u8 v s).
Proof. apply emit_slice_inv. Qed.
Lemma emit_u16_inv b s v : inv b s -> rinv idp b (emit_u16 v s).
Proof. apply emit_slice_inv. Qed.
Lemma emit_u32_inv b s v : inv b s -> rinv idp b (emit_u32 v s).
Proof. apply emit_slice_inv. Qed.

Lemma place_inv b s n : inv b s ->
  rinv snd b (place n s) /\
  (forall pl s', place n s = Ok (pl, s') -> pl = off s /\ off s' = (off s + n)%nat).
Proof.
  intros Hi. pose proof Hi as (H1 & H2 & H3 & H4 & H5 & H6 & H7). unfold place.
  destruct (Nat.ltb_spec (maxsz s) (off s + n)) as [Hlt|Hge].
  - split; [exact Hi|discriminate].
  - split; [|intros pl s' E; inversion E; subst; cbn; auto].
    cbn [rinv snd]. unfold inv; cbn [set_off set_buf buf off maxsz ptrs].
    rewrite firstn_all2 by lia. rewrite app_length, repeat_length.
    repeat split; auto; try lia.
    + rewrite firstn_app_le by lia. exact H5.
    + eapply Forall_impl; [|exact H7]. cbn. intros; lia.
Qed.

Lemma replace_inv b s start data :
  inv b s -> (off b <= start)%nat -> (start + length data <= off s)%nat ->
  rinv idp b (replace start data s).
Proof.
  intros Hi Hs He. pose proof Hi as (H1 & H2 & H3 & H4 & H5 & H6 & H7). unfold replace.
  destruct (Nat.ltb_spec (maxsz s) (start + length data)) as [Hlt|Hge]; cbn [rinv]; [exact Hi|].
  unfold inv; cbn [set_off set_buf buf off maxsz ptrs].
  assert (HL : length (buf_write (buf s) start data) = length (buf s)).
  { unfold buf_write. rewrite !app_length, firstn_length, skipn_length. lia. }
  rewrite HL. repeat split; auto.
  unfold buf_write. rewrite firstn_app_le by (rewrite firstn_length; lia).
  rewrite firstn_firstn. replace (Nat.min (off b) start) with (off b) by lia. exact H5.
Qed.

Lemma firstn_filter_pass {A} (f : A -> bool) (l : list A) n :
  Forall (fun x => f x = true) (firstn n l) -> firstn n (filter f l) = firstn n l.
Proof.
  revert n; induction l as [|x l IH]; intros [|n] H; cbn [firstn filter] in *; try reflexivity.
  inversion H; subst. rewrite H2. cbn [firstn]. f_equal. apply IH. assumption.
Qed.

(* rewind to [i] and trim *)
Lemma rewind_inv b s i : inv b s -> wfb b -> (off b <= i <= off s)%nat -> inv b (trim (set_off s i)).
Proof.
  intros (H1 & H2 & H3 & H4 & H5 & H6 & H7) (W1 & W2 & W3) Hi.
  unfold inv, trim; cbn [set_off set_buf set_ptrs buf off maxsz ptrs].
  rewrite firstn_length. repeat split; auto; try lia.
  - rewrite firstn_firstn. replace (Nat.min (off b) i) with (off b) by lia. exact H5.
  - rewrite firstn_filter_pass; [exact H6|]. rewrite H6.
    eapply Forall_impl; [|exact W3]. cbn. intros p Hp. apply Nat.ltb_lt. lia.
  - apply Forall_forall. intros p Hp. apply filter_In in Hp. destruct Hp as [_ Hp].
    apply Nat.ltb_lt in Hp. exact Hp.
Qed.

Lemma store_ptr_inv b s i last : inv b s -> (i < off s)%nat -> inv b (store_ptr i last s).
Proof.
  intros Hi Hlt. pose proof Hi as (H1 & H2 & H3 & H4 & H5 & H6 & H7). unfold store_ptr.
  destruct ((N.of_nat (off s) <? 16383) && (length (ptrs s) <? 64)%nat)%bool; [|exact Hi].
  unfold inv; cbn [set_ptrs buf off maxsz ptrs]. repeat split; auto.
  - rewrite firstn_app_le; [exact H6|]. rewrite <- H6. rewrite firstn_length. lia.
  - apply Forall_app. split; [exact H7|]. constructor; [exact Hlt|constructor].
Qed.

Lemma store_ptr_off s i last : off (store_ptr i last s) = off s.
Proof. unfold store_ptr. destruct (_ && _)%bool; reflexivity. Qed.

Lemma store_all_inv b idxs last s :
  inv b s -> Forall (fun i => (i < off s)%nat) idxs -> inv b (store_all idxs last s).
Proof.
  unfold store_all. revert s; induction idxs as [|i idxs IH]; intros s Hi Hf; cbn [fold_left]; [exact Hi|].
  inversion Hf; subst. apply IH; [apply store_ptr_inv; assumption|].
  rewrite store_ptr_off. assumption.
Qed.
Lemma store_all_off idxs last s : off (store_all idxs last s) = off s.
Proof.
  unfold store_all. revert s; induction idxs as [|i idxs IH]; intros s; cbn [fold_left]; [reflexivity|].
  rewrite IH. apply store_ptr_off.
Qed.

Lemma emit_chardata_inv b s d : inv b s -> rinv idp b (emit_chardata d s).
Proof.
  intros Hi. unfold emit_chardata. destruct (255 <? length d)%nat; [exact Hi|].
  eapply rinv_bind; [apply emit_u8_inv; exact Hi|]. intros a Ha. apply emit_slice_inv. exact Ha.
Qed.

Lemma emit_slice_off s s' data : emit_slice data s = Ok s' -> off s' = (off s + length data)%nat.
Proof. unfold emit_slice. destruct (_ <? _)%nat; [discriminate|]. intros E; inversion E; reflexivity. Qed.

Lemma emit_chardata_off s s' d : emit_chardata d s = Ok s' -> (off s < off s')%nat.
Proof.
  unfold emit_chardata. destruct (255 <? length d)%nat; [discriminate|].
  unfold emit_u8. destruct (emit_slice _ s) as [s1|] eqn:E1; cbn [bind]; [|discriminate].
  intros E2. apply emit_slice_off in E1. apply emit_slice_off in E2. cbn [length] in E1. lia.
Qed.

Lemma emit_labels_inv b ls : forall s starts,
  inv b s -> wfb b -> Forall (fun i => (off b <= i < off s)%nat) starts ->
  rinv snd b (emit_labels ls s starts) /\
  (forall st' s', emit_labels ls s starts = Ok (st', s') ->
     Forall (fun i => (off b <= i < off s')%nat) st' /\ (off s <= off s')%nat).
Proof.
  induction ls as [|l ls IH]; intros s starts Hi Hw Hs; cbn [emit_labels].
  - split; [exact Hi|]. intros st' s' E; inversion E; subst. split; [exact Hs|lia].
  - destruct (63 <? length l)%nat; [split; [exact Hi|discriminate]|].
    pose proof (emit_chardata_inv b s l Hi) as Hc.
    destruct (emit_chardata l s) as [s1|e sf] eqn:E1; cbn [bind rinv] in *; [|split; [exact Hc|discriminate]].
    pose proof (emit_chardata_off _ _ _ E1) as Ho.
    assert (Hs1 : Forall (fun i => (off b <= i < off s1)%nat) (starts ++ [off s])).
    { apply Forall_app. split.
      - eapply Forall_impl; [|exact Hs]. cbn. intros; lia.
      - constructor; [|constructor]. destruct Hi as (_ & _ & _ & H4 & _). lia. }
    destruct (IH s1 _ Hc Hw Hs1) as [IH1 IH2]. split; [exact IH1|].
    intros st' s' E. destruct (IH2 _ _ E) as [A B]. split; [exact A|lia].
Qed.

Lemma compress_loop_inv b last : forall idxs s,
  inv b s -> wfb b -> last = off s -> Forall (fun i => (off b <= i < last)%nat) idxs ->
  rinv snd b (compress_loop idxs last s).
Proof.
  induction idxs as [|i idxs IH]; intros s Hi Hw Hl Hf; cbn [compress_loop]; [exact Hi|].
  inversion Hf as [|? ? Hi1 Hf']; subst.
  assert (Hstore : rinv snd b (compress_loop idxs (off s) (store_ptr i (off s) s))).
  { apply IH; [apply store_ptr_inv; [exact Hi|lia]|exact Hw|now rewrite store_ptr_off|exact Hf']. }
  destruct (get_ptr i (off s) s) as [loc|]; [|exact Hstore].
  destruct (N.land (N.of_nat loc) 49152 =? 0); [|exact Hstore].
  assert (Hr : inv b (trim (set_off s i))) by (apply rewind_inv; [exact Hi|exact Hw|lia]).
  pose proof (emit_u16_inv b _ (N.lor 49152 (N.of_nat loc)) Hr) as Hu.
  destruct (emit_u16 _ (trim (set_off s i))) as [s1|e sf]; cbn [bind rinv snd] in *; exact Hu.
Qed.

Lemma set_cnt_inv b s c : inv b s -> inv b (set_cnt s c).
Proof. intros H; exact H. Qed.

Lemma emit_name_inv b s mode name : inv b s -> wfb b -> rinv idp b (emit_name mode name s).
Proof.
  intros Hi Hw. unfold emit_name.
  set (nm := match mode with Lowercase => map (map lower) name | _ => name end).
  destruct (emit_labels_inv b nm s [] Hi Hw (Forall_nil _)) as [HL1 HL2].
  destruct (emit_labels nm s []) as [[starts s1]|e sf] eqn:EL; cbn [bind rinv snd] in *; [|exact HL1].
  destruct (HL2 _ _ eq_refl) as [Hst Hle].
  assert (Hfin : forall s2, inv b s2 ->
     rinv idp b (do st3 <- emit_u8 0 s2;
                 if (255 <? length (buf st3) - length (buf s))%nat then Err ENameTooLong st3 else Ok st3)).
  { intros s2 H2. pose proof (emit_u8_inv b s2 0 H2) as Hu.
    destruct (emit_u8 0 s2) as [s3|e sf]; cbn [bind rinv] in *; [|exact Hu].
    destruct (255 <? _)%nat; exact Hu. }
  destruct (match mode with Compressed => (cnt s <? 120)%nat | _ => false end).
  - pose proof (compress_loop_inv b (off s1) starts (set_cnt s1 (S (cnt s1))) HL1 Hw eq_refl Hst) as Hc.
    destruct (compress_loop starts (off s1) (set_cnt s1 (S (cnt s1)))) as [[done s2]|e sf];
      cbn [bind rinv snd] in *; [|exact Hc].
    destruct done; [exact Hc|apply Hfin; exact Hc].
  - apply Hfin. apply store_all_inv; [exact HL1|].
    eapply Forall_impl; [|exact Hst]. cbn. intros; lia.
Qed.

Lemma emit_parts_inv b ps : forall s, inv b s -> wfb b -> rinv idp b (emit_parts ps s).
Proof.
  induction ps as [|p ps IH]; intros s Hi Hw; cbn [emit_parts]; [exact Hi|].
  destruct p as [d|m n].
  - eapply rinv_bind; [apply emit_slice_inv; exact Hi|]. intros a Ha. apply IH; assumption.
  - eapply rinv_bind; [apply emit_name_inv; assumption|]. intros a Ha. apply IH; assumption.
Qed.

Lemma rinv_ok_off {A} (pa : A -> enc) b r a : rinv pa b r -> r = Ok a -> inv b (pa a).
Proof. intros H ->. exact H. Qed.

(* a record emission stays within the frame of the state it started from *)
Lemma emit_rec_inv b r : wfb b -> rinv idp b (emit_rec r b).
Proof.
  intros Hw. pose proof (inv_refl b Hw) as H0. unfold emit_rec.
  eapply rinv_bind; [apply emit_name_inv; assumption|]. intros s1 H1.
  eapply rinv_bind; [apply emit_u16_inv; exact H1|]. intros s2 H2.
  eapply rinv_bind; [apply emit_u16_inv; exact H2|]. intros s3 H3.
  eapply rinv_bind; [apply emit_u32_inv; exact H3|]. intros s4 H4.
  destruct (place_inv b s4 2 H4) as [HP1 HP2].
  destruct (place 2 s4) as [[pl s5]|e sf] eqn:EP; cbn [bind rinv snd] in *; [|exact HP1].
  destruct (HP2 _ _ eq_refl) as [Epl Eoff]. subst pl.
  pose proof (emit_parts_inv b (rparts r) s5 HP1 Hw) as H6.
  destruct (emit_parts (rparts r) s5) as [s6|e sf] eqn:E6; cbn [bind rinv] in *; [|exact H6].
  apply replace_inv; [exact H6| |].
  - destruct H4 as (_ & _ & _ & H44 & _). exact H44.
  - cbn [be16 length].
    assert (off s5 <= off s6)%nat; [|lia].
    (* offsets only grow along emit_parts: from inv of s6 relative to s5's frame *)
    clear - E6 HP1 Hw. revert s5 s6 HP1 E6.
    induction (rparts r) as [|p ps IH]; intros s5 s6 HP1 E6; cbn [emit_parts] in E6.
    + inversion E6; subst; lia.
    + destruct p as [d|m n].
      * pose proof (emit_slice_inv b s5 d HP1) as Hs.
        destruct (emit_slice d s5) as [s'|] eqn:E; cbn [bind] in E6; [|discriminate].
        apply emit_slice_off in E. specialize (IH s' s6 Hs E6). lia.
      * pose proof (emit_name_inv b s5 m n HP1 Hw) as Hs.
        destruct (emit_name m n s5) as [s'|] eqn:E; cbn [bind] in E6; [|discriminate].
        cbn [rinv] in Hs. specialize (IH s' s6 Hs E6).
        (* emit_name never moves the offset below where the name started *)
        assert (inv s5 s') as Hrel.
        { pose proof (emit_name_inv s5 s5 m n (inv_refl _ (inv_wfb _ _ HP1)) (inv_wfb _ _ HP1)) as Hx.
          rewrite E in Hx. exact Hx. }
        destruct Hrel as (_ & _ & _ & Hge & _). lia.
Qed.

Lemma emit_query_inv b q : wfb b -> rinv idp b (emit_query q b).
Proof.
  intros Hw. pose proof (inv_refl b Hw) as H0. unfold emit_query.
  eapply rinv_bind; [apply emit_name_inv; assumption|]. intros s1 H1.
  eapply rinv_bind; [apply emit_u16_inv; exact H1|]. intros s2 H2.
  apply emit_u16_inv; exact H2.
Qed.

(* ---- rollback restores the base state, except for the compressed-name counter ---- *)
Lemma rollback_restores b sf : wfb b -> inv b sf ->
  rollback (off b) (length (ptrs b)) sf = set_cnt b (cnt sf).
Proof.
  intros (W1 & W2 & W3) (H1 & H2 & H3 & H4 & H5 & H6 & H7).
  unfold rollback, set_cnt, set_ptrs, set_off, set_buf; cbn [buf off maxsz ptrs cnt].
  rewrite H5, H6, H3. reflexivity.
Qed.
