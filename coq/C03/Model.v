(* C03 — model of the size-limited encoder:
   crates/proto/src/serialize/binary/encoder.rs (MaximalBuf, BinEncoder: emit_slice, place /
   Place::replace, trim, store/get_label_pointer, emit_iter + Rollback),
   Name::emit (crates/proto/src/rr/domain/name.rs), Record::emit (rr/record.rs),
   emit_message_parts / count_was_truncated (op/message.rs).
   RDATA is a list of parts (raw bytes / embedded name with its encoding mode), which is what every
   RData::emit reduces to.  No proofs in this file. *)
From HV Require Import Lib.Base.
Open Scope N_scope.

Inductive err := EMax | ELabelTooLong | ENameTooLong | ECharData | ETooMany.
(* BinEncoder: offset, MaximalBuf{max_size, buffer}, name_pointers, compressed_name_count *)
Record enc := mkEnc {
  buf : list byte;
  off : nat;
  maxsz : nat;
  ptrs : list (nat * list byte);
  cnt : nat
}.

Definition set_buf (st : enc) b := mkEnc b (off st) (maxsz st) (ptrs st) (cnt st).
Definition set_off (st : enc) o := mkEnc (buf st) o (maxsz st) (ptrs st) (cnt st).
Definition set_ptrs (st : enc) p := mkEnc (buf st) (off st) (maxsz st) p (cnt st).
Definition set_cnt (st : enc) c := mkEnc (buf st) (off st) (maxsz st) (ptrs st) c.

(* an error carries the encoder state at the point of failure: emit_iter's rollback acts on it *)
Inductive res (A : Type) := Ok (a : A) | Err (e : err) (s : enc).
Arguments Ok {A} _. Arguments Err {A} _ _.

Definition bind {A B} (r : res A) (f : A -> res B) : res B :=
  match r with Ok a => f a | Err e s => Err e s end.
Notation "'do' x <- r ; k" := (bind r (fun x => k)) (at level 200, x name, r at level 100, k at level 200).
Notation "'do' ' p <- r ; k" := (bind r (fun x => match x with p => k end))
  (at level 200, p strict pattern, r at level 100, k at level 200).

Definition enc_new (max : nat) : enc := mkEnc [] 0 max [] 0.

(* MaximalBuf::write(offset, data): bounds check, then overwrite/extend *)
Definition buf_write (b : list byte) (o : nat) (data : list byte) : list byte :=
  firstn o b ++ data ++ skipn (o + length data) b.

(* BinEncoder::emit_slice *)
Definition emit_slice (data : list byte) (st : enc) : res enc :=
  if (maxsz st <? off st + length data)%nat then Err EMax st
  else Ok (set_off (set_buf st (buf_write (buf st) (off st) data)) (off st + length data)).

Definition emit_u8 (v : N) := emit_slice [v mod 256].
Definition be16 (v : N) : list byte := [(v / 256) mod 256; v mod 256].
Definition be32 (v : N) : list byte :=
  [(v / 16777216) mod 256; (v / 65536) mod 256; (v / 256) mod 256; v mod 256].
Definition emit_u16 (v : N) := emit_slice (be16 v).
Definition emit_u32 (v : N) := emit_slice (be32 v).

(* BinEncoder::place::<T>(): MaximalBuf::reserve(offset, LEN) = bounds check + resize(end, 0) *)
Definition place (len : nat) (st : enc) : res (nat * enc) :=
  let e := (off st + len)%nat in
  if (maxsz st <? e)%nat then Err EMax st
  else Ok (off st, set_off (set_buf st (firstn e (buf st) ++ repeat 0 (e - length (buf st)))) e).

(* Place::replace: write at the place, keep the current offset *)
Definition replace (start : nat) (data : list byte) (st : enc) : res enc :=
  if (maxsz st <? start + length data)%nat then Err EMax st
  else Ok (set_buf st (buf_write (buf st) start data)).

(* BinEncoder::trim *)
Definition trim (st : enc) : enc :=
  set_ptrs (set_buf st (firstn (off st) (buf st)))
           (filter (fun p => (fst p <? off st)%nat) (ptrs st)).

Definition slice_of (st : enc) (s e : nat) : list byte := firstn (e - s) (skipn s (buf st)).

(* store_label_pointer: offset < 0x3FFF and fewer than COMPRESSION_CANDIDATE_LIMIT = 64 *)
Definition store_ptr (s e : nat) (st : enc) : enc :=
  if ((N.of_nat (off st) <? 16383) && (length (ptrs st) <? 64)%nat)%bool
  then set_ptrs st (ptrs st ++ [(s, slice_of st s e)]) else st.

Fixpoint find_ptr (search : list byte) (ps : list (nat * list byte)) : option nat :=
  match ps with
  | [] => None
  | (s, m) :: ps' => if bytes_eqb m search then Some s else find_ptr search ps'
  end.
Definition get_ptr (s e : nat) (st : enc) : option nat := find_ptr (slice_of st s e) (ptrs st).

(* emit_character_data: length byte then the bytes (two separate writes) *)
Definition emit_chardata (d : list byte) (st : enc) : res enc :=
  if (255 <? length d)%nat then Err ECharData st
  else do st1 <- emit_u8 (N.of_nat (length d)) st; emit_slice d st1.

Inductive nmode := Compressed | Uncompressed | Lowercase.

Definition lower (b : byte) : byte := if (65 <=? b) && (b <=? 90) then b + 32 else b.

(* the label-writing loop of Name::emit: returns the start index of every label *)
Fixpoint emit_labels (ls : list (list byte)) (st : enc) (starts : list nat) : res (list nat * enc) :=
  match ls with
  | [] => Ok (starts, st)
  | l :: ls' =>
      if (63 <? length l)%nat then Err ELabelTooLong st
      else do st1 <- emit_chardata l st; emit_labels ls' st1 (starts ++ [off st])
  end.

(* the compression loop: first suffix found in the table wins: rewind, trim, write the pointer *)
Fixpoint compress_loop (idxs : list nat) (last : nat) (st : enc) : res (bool * enc) :=
  match idxs with
  | [] => Ok (false, st)
  | i :: idxs' =>
      match get_ptr i last st with
      | Some loc =>
          if N.land (N.of_nat loc) 49152 =? 0 then
            do st1 <- emit_u16 (N.lor 49152 (N.of_nat loc)) (trim (set_off st i));
            Ok (true, st1)
          else compress_loop idxs' last (store_ptr i last st)
      | None => compress_loop idxs' last (store_ptr i last st)
      end
  end.

Definition store_all (idxs : list nat) (last : nat) (st : enc) : enc :=
  fold_left (fun s i => store_ptr i last s) idxs st.

(* COMPRESSED_NAME_LIMIT = 120 *)
Definition emit_name (mode : nmode) (name : list (list byte)) (st : enc) : res enc :=
  let name := match mode with Lowercase => map (map lower) name | _ => name end in
  let compression := match mode with Compressed => (cnt st <? 120)%nat | _ => false end in
  let buf_len := length (buf st) in
  do '(starts, st1) <- emit_labels name st [];
  let last := off st1 in
  let finish (st2 : enc) :=
    do st3 <- emit_u8 0 st2;
    if (255 <? length (buf st3) - buf_len)%nat then Err ENameTooLong st3 else Ok st3 in
  if compression then
    do '(done, st2) <- compress_loop starts last (set_cnt st1 (S (cnt st1)));
    if done then Ok st2 else finish st2
  else finish (store_all starts last st1).

(* RDATA as the sequence of things RData::emit writes *)
Inductive part := PBytes (b : list byte) | PName (m : nmode) (n : list (list byte)).

Fixpoint emit_parts (ps : list part) (st : enc) : res enc :=
  match ps with
  | [] => Ok st
  | PBytes b :: ps' => do st1 <- emit_slice b st; emit_parts ps' st1
  | PName m n :: ps' => do st1 <- emit_name m n st; emit_parts ps' st1
  end.

Record rec := mkRec {
  rname : list (list byte);
  rtype : N; rclass : N; rttl : N;
  rparts : list part          (* [] when the record carries no RDATA (Update0) *)
}.

(* Record::emit: owner, type, class, ttl, RDLENGTH place, RDATA, back-patch *)
Definition emit_rec (r : rec) (st : enc) : res enc :=
  do st1 <- emit_name Compressed (rname r) st;
  do st2 <- emit_u16 (rtype r) st1;
  do st3 <- emit_u16 (rclass r) st2;
  do st4 <- emit_u32 (rttl r) st3;
  do '(pl, st5) <- place 2 st4;
  do st6 <- emit_parts (rparts r) st5;
  replace pl (be16 (N.of_nat (off st6 - pl - 2))) st6.

Record query := mkQ { qname : list (list byte); qtype : N; qclass : N }.
Definition emit_query (q : query) (st : enc) : res enc :=
  do st1 <- emit_name Compressed (qname q) st;
  do st2 <- emit_u16 (qtype q) st1;
  emit_u16 (qclass q) st2.

(* Rollback::rollback: offset, name_pointers.truncate — and (since the fix for the stale-tail
   defect) the buffer is cut back to the restored offset *)
Definition rollback (o np : nat) (st : enc) : enc :=
  set_ptrs (set_off (set_buf st (firstn o (buf st))) o) (firstn np (ptrs st)).

(* emit_iter: Ok count, or NotAllRecordsWritten{count} (truncated = true), or another error *)
Section Iter.
  Context {A : Type} (emit1 : A -> enc -> res enc).
  Fixpoint emit_iter (xs : list A) (count : nat) (st : enc) : res (nat * bool * enc) :=
    match xs with
    | [] => Ok (count, false, st)
    | x :: xs' =>
        match emit1 x st with
        | Ok st1 => emit_iter xs' (S count) st1
        | Err EMax sf => Ok (count, true, rollback (off st) (length (ptrs st)) sf)
        | Err e sf => Err e sf
        end
    end.
End Iter.

(* count_was_truncated: the count must fit a u16 *)
Definition count16 (r : res (nat * bool * enc)) : res (nat * bool * enc) :=
  do '(c, t, st) <- r;
  if 65535 <? N.of_nat c then Err ETooMany st else Ok (c, t, st).

Record msg := mkMsg {
  mid : N;            (* header id *)
  mflags1 : N;        (* QR|opcode|AA|RD without TC *)
  mtc : bool;         (* metadata.truncation *)
  mflags2 : N;        (* RA|AD|CD|rcode.low *)
  mqueries : list query;
  manswers : list rec;
  mauth : list rec;
  madd : list rec;
  medns : option rec; (* Record::from(&edns) after set_rcode_high *)
  msig : option rec   (* TSIG record *)
}.

Definition header_bytes (m : msg) (tc : bool) (qd an ns ar : nat) : list byte :=
  be16 (mid m) ++ [N.lor (mflags1 m) (if tc then 2 else 0); mflags2 m]
  ++ be16 (N.of_nat qd) ++ be16 (N.of_nat an) ++ be16 (N.of_nat ns) ++ be16 (N.of_nat ar).

Definition opt_list {A} (o : option A) : list A := match o with Some x => [x] | None => [] end.

(* emit_message_parts *)
Definition emit_message (m : msg) (st : enc) : res enc :=
  do '(pl, st0) <- place 12 st;
  do '(qd, qt, st1) <- emit_iter emit_query (mqueries m) 0 st0;
  if qt then Err EMax st1 (* queries.emit(encoder)? : NotAllRecordsWritten propagates *)
  else if 65535 <? N.of_nat qd then Err ETooMany st1
  else
  do '(an, t1, st2) <- count16 (emit_iter emit_rec (manswers m) 0 st1);
  do '(ns, t2, st3) <- count16 (emit_iter emit_rec (mauth m) 0 st2);
  do '(ar, t3, st4) <- count16 (emit_iter emit_rec (madd m) 0 st3);
  do '(ar2, t4, st5) <- count16 (emit_iter emit_rec (opt_list (medns m)) 0 st4);
  do '(ar3, t5, st6) <- count16 (emit_iter emit_rec (opt_list (msig m)) 0 st5);
  let tc := (mtc m || t1 || t2 || t3 || t4 || t5)%bool in
  replace pl (header_bytes m tc qd an ns (ar + ar2 + ar3)) st6.

(* Message::to_vec / BinEncoder with set_max_size(limit): what the caller gets *)
Inductive outcome := OBytes (b : list byte) | OErr (e : err).
Definition encode (limit : nat) (m : msg) : outcome :=
  match emit_message m (enc_new limit) with
  | Ok st => OBytes (buf st)
  | Err e _ => OErr e
  end.

(* MessageResponse::encode's limit: UDP = payload of the RESPONSE edns (Catalog sets it to
   max(512, advertised)) or 512 without EDNS; anything else 65535 *)
Definition server_limit (tcp : bool) (advertised : option N) : N :=
  if tcp then 65535
  else match advertised with Some p => N.max p 512 | None => 512 end.
