(* C13 — a message that differs from an accepted one in any covered part is rejected unless a MAC
   collision is exhibited; verify / client_verify / the server never panic. *)
From HV Require Import Lib.Base C13.Model C13.AuthProofs C13.TbsProofs.
Open Scope N_scope.

Lemma bytes_eq_dec (a b : bytes) : {a = b} + {a <> b}.
Proof. apply list_eq_dec. apply N.eq_dec. Qed.

Section Forge.
Variable K : Type.
Variable mac : alg -> K -> bytes -> bytes.

(* both messages carry a MAC that some key produces for their own MAC input *)
Lemma same_mac_same_covered prev (m m' : bytes) v v' a k a' k' :
  bytes_ok m -> bytes_ok m' -> frame m = FSigned v -> frame m' = FSigned v' ->
  t_mac (v_tsig v) = mac a k (tbs prev true v) ->
  t_mac (v_tsig v') = mac a' k' (tbs prev true v') ->
  t_mac (v_tsig v') = t_mac (v_tsig v) ->
  covered_of v = covered_of v' \/ mac_collision mac.
Proof.
  intros B B' F F' M M' E.
  destruct (bytes_eq_dec (tbs prev true v) (tbs prev true v')) as [Et|Ne].
  - left. exact (tbs_injective prev m m' v v' B B' F F' Et).
  - right. exists a, k, (tbs prev true v), a', k', (tbs prev true v'). split; [exact Ne|congruence].
Qed.

Lemma modified_request (ss ss' : list (signer K)) (m m' : bytes) now now' v v' :
  bytes_ok m -> bytes_ok m' ->
  valid_tsig_request mac ss m now -> valid_tsig_request mac ss' m' now' ->
  frame m = FSigned v -> frame m' = FSigned v' ->
  t_mac (v_tsig v') = t_mac (v_tsig v) ->
  covered_of v = covered_of v' \/ mac_collision mac.
Proof.
  intros B B' (v0 & s & F0 & _ & _ & _ & M & _) (v0' & s' & F0' & _ & _ & _ & M' & _) F F' E.
  assert (v0 = v) by congruence. assert (v0' = v') by congruence. subst.
  exact (same_mac_same_covered None m m' v v' _ _ _ _ B B' F F' M M' E).
Qed.

Lemma modified_first_reply (vf : verifier K) (r r' : bytes) v v' vf1 vf2 :
  vf_remote vf = 0 -> bytes_ok r -> bytes_ok r' ->
  client_verify mac true vf r = CRAccept vf1 -> client_verify mac true vf r' = CRAccept vf2 ->
  frame r = FSigned v -> frame r' = FSigned v' ->
  t_mac (v_tsig v') = t_mac (v_tsig v) ->
  covered_of v = covered_of v' \/ mac_collision mac.
Proof.
  intros R0 B B' A A' F F' E.
  unfold client_verify, verify in A, A'. cbn [negb] in A, A'. rewrite F in A. rewrite F' in A'.
  rewrite R0 in A, A'. change (0 =? 0) with true in A, A'.
  destruct (verify_view mac (vf_signer vf) v (Some (vf_prev vf)) true) as [| | | | |mc tm lo hi] eqn:V;
    try discriminate.
  destruct (verify_view mac (vf_signer vf) v' (Some (vf_prev vf)) true) as [| | | | |mc' tm' lo' hi'] eqn:V';
    try discriminate.
  apply verify_view_ok in V, V'.
  destruct V as (_ & _ & _ & M & _). destruct V' as (_ & _ & _ & M' & _).
  exact (same_mac_same_covered (Some (vf_prev vf)) r r' v v' _ _ _ _ B B' F F' M M' E).
Qed.

Lemma modified_later_reply (vf : verifier K) (r r' : bytes) v v' vf1 vf2 :
  vf_remote vf <> 0 -> bytes_ok r -> bytes_ok r' ->
  client_verify mac true vf r = CRAccept vf1 -> client_verify mac true vf r' = CRAccept vf2 ->
  frame r = FSigned v -> frame r' = FSigned v' ->
  t_mac (v_tsig v') = t_mac (v_tsig v) ->
  covered_later_of v = covered_later_of v' \/ mac_collision mac.
Proof.
  intros R0 B B' A A' F F' E. apply N.eqb_neq in R0.
  unfold client_verify, verify in A, A'. cbn [negb] in A, A'. rewrite F in A. rewrite F' in A'.
  rewrite R0 in A, A'.
  destruct (verify_view mac (vf_signer vf) v (Some (vf_prev vf)) false) as [| | | | |mc tm lo hi] eqn:V;
    try discriminate.
  destruct (verify_view mac (vf_signer vf) v' (Some (vf_prev vf)) false) as [| | | | |mc' tm' lo' hi'] eqn:V';
    try discriminate.
  apply verify_view_ok in V, V'.
  destruct V as (_ & _ & _ & M & _). destruct V' as (_ & _ & _ & M' & _).
  destruct (bytes_eq_dec (tbs (Some (vf_prev vf)) false v) (tbs (Some (vf_prev vf)) false v')) as [Et|Ne].
  - left. exact (tbs_injective_later _ r r' v v' B B' F F' Et).
  - right. exists (s_alg (vf_signer vf)), (s_key (vf_signer vf)), (tbs (Some (vf_prev vf)) false v),
                  (s_alg (vf_signer vf)), (s_key (vf_signer vf)), (tbs (Some (vf_prev vf)) false v').
    split; [exact Ne|congruence].
Qed.

(* --- no panics --- *)

Lemma verify_no_panic deep s m prev first : verify mac deep s m prev first <> VPanic.
Proof.
  unfold verify. destruct (negb deep); [discriminate|].
  destruct (frame m); try discriminate. apply verify_view_never_panics.
Qed.

Lemma client_verify_no_panic deep vf r : client_verify mac deep vf r <> CRPanic.
Proof.
  unfold client_verify.
  destruct (verify mac deep (vf_signer vf) r (Some (vf_prev vf)) (vf_remote vf =? 0)) eqn:V;
    try discriminate.
  - exfalso. eapply verify_no_panic; eauto.
  - destruct (_ && _); discriminate.
Qed.

End Forge.
