(* C13 — a message that differs from an accepted one in any covered part is rejected unless a MAC
   collision is exhibited; panic classes of verify / client_verify. *)
From HV Require Import Lib.Base C13.Model C13.AuthProofs C13.TbsProofs.
Open Scope N_scope.

Lemma bytes_eq_dec (a b : bytes) : {a = b} + {a <> b}.
Proof. apply list_eq_dec. apply N.eq_dec. Qed.

Section Forge.
Variable K : Type.
Variable mac : alg -> K -> bytes -> bytes.

(* both messages carry a MAC that some key produces for their own MAC input *)
Lemma same_mac_same_covered prev (m m' : bytes) v v' a k a' k' :
  bytes_ok m -> bytes_ok m' -> frame m = FSigned v -> frame m' = FSigned v' ->
  t_mac (v_tsig v) = mac a k (tbs prev true v) ->
  t_mac (v_tsig v') = mac a' k' (tbs prev true v') ->
  t_mac (v_tsig v') = t_mac (v_tsig v) ->
  covered_of v = covered_of v' \/ mac_collision mac.
Proof.
  intros B B' F F' M M' E.
  destruct (bytes_eq_dec (tbs prev true v) (tbs prev true v')) as [Et|Ne].
  - left. exact (tbs_injective prev m m' v v' B B' F F' Et).
  - right. exists a, k, (tbs prev true v), a', k', (tbs prev true v'). split; [exact Ne|congruence].
Qed.

Lemma modified_request (ss ss' : list (signer K)) (m m' : bytes) now now' v v' :
  bytes_ok m -> bytes_ok m' ->
  valid_tsig_request mac ss m now -> valid_tsig_request mac ss' m' now' ->
  frame m = FSigned v -> frame m' = FSigned v' ->
  t_mac (v_tsig v') = t_mac (v_tsig v) ->
  covered_of v = covered_of v' \/ mac_collision mac.
Proof.
  intros B B' (v0 & s & F0 & _ & _ & _ & M & _) (v0' & s' & F0' & _ & _ & _ & M' & _) F F' E.
  assert (v0 = v) by congruence. assert (v0' = v') by congruence. subst.
  exact (same_mac_same_covered None m m' v v' _ _ _ _ B B' F F' M M' E).
Qed.

Lemma modified_first_reply (vf : verifier K) (r r' : bytes) v v' vf1 vf2 :
  vf_remote vf = 0 -> bytes_ok r -> bytes_ok r' ->
  client_verify mac true vf r = CRAccept vf1 -> client_verify mac true vf r' = CRAccept vf2 ->
  frame r = FSigned v -> frame r' = FSigned v' ->
  t_mac (v_tsig v') = t_mac (v_tsig v) ->
  covered_of v = covered_of v' \/ mac_collision mac.
Proof.
  intros R0 B B' A A' F F' E.
  unfold client_verify, verify in A, A'. cbn [negb] in A, A'. rewrite F in A. rewrite F' in A'.
  rewrite R0 in A, A'. change (0 =? 0) with true in A, A'.
  destruct (verify_view mac (vf_signer vf) v (Some (vf_prev vf)) true) as [| | | | | |mc tm lo hi] eqn:V;
    try discriminate.
  destruct (verify_view mac (vf_signer vf) v' (Some (vf_prev vf)) true) as [| | | | | |mc' tm' lo' hi'] eqn:V';
    try discriminate.
  apply verify_view_ok in V, V'.
  destruct V as (_ & _ & _ & M & _). destruct V' as (_ & _ & _ & M' & _).
  exact (same_mac_same_covered (Some (vf_prev vf)) r r' v v' _ _ _ _ B B' F F' M M' E).
Qed.

Lemma modified_later_reply (vf : verifier K) (r r' : bytes) v v' vf1 vf2 :
  vf_remote vf <> 0 -> bytes_ok r -> bytes_ok r' ->
  client_verify mac true vf r = CRAccept vf1 -> client_verify mac true vf r' = CRAccept vf2 ->
  frame r = FSigned v -> frame r' = FSigned v' ->
  t_mac (v_tsig v') = t_mac (v_tsig v) ->
  covered_later_of v = covered_later_of v' \/ mac_collision mac.
Proof.
  intros R0 B B' A A' F F' E. apply N.eqb_neq in R0.
  unfold client_verify, verify in A, A'. cbn [negb] in A, A'. rewrite F in A. rewrite F' in A'.
  rewrite R0 in A, A'.
  destruct (verify_view mac (vf_signer vf) v (Some (vf_prev vf)) false) as [| | | | | |mc tm lo hi] eqn:V;
    try discriminate.
  destruct (verify_view mac (vf_signer vf) v' (Some (vf_prev vf)) false) as [| | | | | |mc' tm' lo' hi'] eqn:V';
    try discriminate.
  apply verify_view_ok in V, V'.
  destruct V as (_ & _ & _ & M & _). destruct V' as (_ & _ & _ & M' & _).
  destruct (bytes_eq_dec (tbs (Some (vf_prev vf)) false v) (tbs (Some (vf_prev vf)) false v')) as [Et|Ne].
  - left. exact (tbs_injective_later _ r r' v v' B B' F F' Et).
  - right. exists (s_alg (vf_signer vf)), (s_key (vf_signer vf)), (tbs (Some (vf_prev vf)) false v),
                  (s_alg (vf_signer vf)), (s_key (vf_signer vf)), (tbs (Some (vf_prev vf)) false v').
    split; [exact Ne|congruence].
Qed.

(* --- panics --- *)

Lemma verify_panics deep s m prev first :
  verify mac deep s m prev first = VDbgPanic <-> deep = true /\ frame m = FPanic.
Proof.
  unfold verify. destruct deep; cbn [negb].
  2:{ split; [discriminate|intros (? & _); discriminate]. }
  destruct (frame m) as [|h| |v] eqn:F.
  - split; [discriminate|intros (_ & ?); discriminate].
  - split; [discriminate|intros (_ & ?); discriminate].
  - tauto.
  - split; [|intros (_ & ?); discriminate]. intros H. exfalso. eapply verify_view_never_dbg; eauto.
Qed.

Lemma client_verify_panics deep vf r :
  client_verify mac deep vf r = CRPanic <->
  deep = true /\
  (frame r = FPanic \/
   exists v, frame r = FSigned v /\
     verify_view mac (vf_signer vf) v (Some (vf_prev vf)) (vf_remote vf =? 0) = VUnderflow).
Proof.
  unfold client_verify, verify. destruct deep; cbn [negb].
  2:{ split; [discriminate|intros (? & _); discriminate]. }
  destruct (frame r) as [|h| |v] eqn:F.
  - split; [discriminate|]. intros (_ & [?|(v & ? & _)]); discriminate.
  - split; [discriminate|]. intros (_ & [?|(v & ? & _)]); discriminate.
  - split; auto.
  - destruct (verify_view mac (vf_signer vf) v (Some (vf_prev vf)) (vf_remote vf =? 0))
      as [| | | | | |mc tm lo hi] eqn:V.
    all: try (split; [discriminate|]; intros (_ & [?|(v0 & [= <-] & V0)]); [discriminate|congruence]).
    + exfalso. eapply verify_view_never_dbg; eauto.
    + split; [intros _|reflexivity]. split; [reflexivity|]. right. exists v. auto.
    + destruct (_ && _); (split; [discriminate|]);
        intros (_ & [?|(v0 & [= <-] & V0)]); [discriminate|congruence|discriminate|congruence].
Qed.

(* what makes signed_bitmessage_to_buf panic *)
Definition frame_panics (m : bytes) : Prop :=
  exists h rest r1, parse_header m = Some (h, rest) /\ h_ar h <> 0 /\
    skip_queries (N.to_nat (h_qd h)) rest = Some r1 /\
    (65536 <= h_an h + h_ns h \/
     exists r2 r3, skip_plain (N.to_nat (h_an h + h_ns h)) r1 = Some r2 /\
                   skip_add (N.to_nat (h_ar h - 1)) false r2 = Some (r3, true)).

Lemma frame_panic_class m : frame m = FPanic <-> frame_panics m.
Proof.
  unfold frame, frame_panics. destruct (parse_header m) as [[h rest]|] eqn:Eh.
  2:{ split; [discriminate|]. intros (h & rest & r1 & ? & _). discriminate. }
  destruct (h_ar h =? 0) eqn:Ea.
  { apply N.eqb_eq in Ea. split.
    - destruct (skip_queries _ rest); [|discriminate]. destruct (skip_plain _ _); discriminate.
    - intros (h' & rest' & r1 & [= <- <-] & Hn & _). contradiction. }
  apply N.eqb_neq in Ea.
  destruct (skip_queries (N.to_nat (h_qd h)) rest) as [r1|] eqn:E1.
  2:{ split; [discriminate|]. intros (h' & rest' & r1 & [= <- <-] & _ & ? & _). congruence. }
  destruct (65536 <=? h_an h + h_ns h) eqn:Eo.
  { apply N.leb_le in Eo. split; [intros _|reflexivity]. exists h, rest, r1. auto. }
  apply N.leb_gt in Eo.
  destruct (skip_plain (N.to_nat (h_an h + h_ns h)) r1) as [r2|] eqn:E2.
  2:{ split; [discriminate|]. intros (h' & rest' & r1' & [= <- <-] & _ & E1' & [?|(r2 & r3 & ? & _)]); [lia|].
      rewrite E1 in E1'. injection E1' as <-. congruence. }
  destruct (skip_add (N.to_nat (h_ar h - 1)) false r2) as [[r3 fl]|] eqn:E3.
  2:{ split; [discriminate|]. intros (h' & rest' & r1' & [= <- <-] & _ & E1' & [?|(r2' & r3 & E2' & E3')]); [lia|].
      rewrite E1 in E1'. injection E1' as <-. rewrite E2 in E2'. injection E2' as <-. congruence. }
  destruct fl.
  - split; [intros _|reflexivity]. exists h, rest, r1. repeat split; auto. right. exists r2, r3. auto.
  - split.
    + destruct (parse_tsig_rr m (length m - length r3)); discriminate.
    + intros (h' & rest' & r1' & [= <- <-] & _ & E1' & [?|(r2' & r3' & E2' & E3')]); [lia|].
      rewrite E1 in E1'. injection E1' as <-. rewrite E2 in E2'. injection E2' as <-.
      rewrite E3 in E3'. discriminate.
Qed.

End Forge.
