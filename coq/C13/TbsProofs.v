(* C13 — the MAC input determines the covered part of a signed message (tbs is injective up to the
   listed uncovered bits). *)
From HV Require Import Lib.Base Lib.ListX C13.Model.
Open Scope N_scope.

(* ------------------------------------------------------------------ *)
(* lists                                                               *)
(* ------------------------------------------------------------------ *)

Lemma app_len_inj {A} (a b x y : list A) : a ++ x = b ++ y -> length a = length b -> a = b /\ x = y.
Proof.
  revert b. induction a as [|u a IH]; intros [|w b] H L; cbn in *; try discriminate; auto.
  injection H as -> H. injection L as L. destruct (IH _ H L) as [-> ->]. auto.
Qed.

Lemma skipn_firstn_app {A} (l x : list A) n : (n <= length l)%nat -> skipn n (firstn n l ++ x) = x.
Proof.
  intros H. rewrite skipn_app, firstn_length, Nat.min_l by exact H.
  rewrite Nat.sub_diag. cbn [skipn]. rewrite skipn_all2; [reflexivity|]. rewrite firstn_length. lia.
Qed.

(* ------------------------------------------------------------------ *)
(* framing functions consume a prefix that does not depend on what follows *)
(* ------------------------------------------------------------------ *)

Lemma drop_prefix n s r : drop n s = Some r ->
  exists p, s = p ++ r /\ length p = n /\ forall r', drop n (p ++ r') = Some r'.
Proof.
  unfold drop. destruct (n <=? length s)%nat eqn:E; [|discriminate]. intros [= <-].
  apply Nat.leb_le in E. exists (firstn n s). split; [now rewrite firstn_skipn|]. split.
  - rewrite firstn_length. lia.
  - intros r'. rewrite app_length, firstn_length, Nat.min_l by exact E.
    assert (n <=? n + length r' = true)%nat as -> by (apply Nat.leb_le; lia).
    now rewrite skipn_firstn_app.
Qed.

Lemma skip_name_fuel : forall f1 f2 s, (length s < f1)%nat -> (length s < f2)%nat ->
  skip_name f1 s = skip_name f2 s.
Proof.
  induction f1 as [|f1 IH]; intros f2 s H1 H2; [lia|]. destruct f2 as [|f2]; [lia|].
  cbn [skip_name]. destruct s as [|b s']; [reflexivity|].
  destruct (b =? 0); [reflexivity|]. destruct (192 <=? b); [reflexivity|].
  destruct (b <? 64); [|reflexivity]. unfold drop.
  destruct (N.to_nat b <=? length s')%nat eqn:E; [|reflexivity].
  apply IH; rewrite skipn_length; cbn [length] in *; lia.
Qed.

Lemma skip_name_prefix : forall f s r, skip_name f s = Some r ->
  exists p, s = p ++ r /\ forall r' f', (f <= f')%nat -> skip_name f' (p ++ r') = Some r'.
Proof.
  induction f as [|f IH]; intros s r H; [discriminate|]. cbn [skip_name] in H.
  destruct s as [|b s']; [discriminate|].
  destruct (b =? 0) eqn:E0.
  { injection H as <-. exists [b]. split; [reflexivity|]. intros r' f' Hf.
    destruct f'; [lia|]. cbn [skip_name app]. now rewrite E0. }
  destruct (192 <=? b) eqn:E1.
  { destruct s' as [|x s'']; [discriminate|]. injection H as <-. exists [b; x]. split; [reflexivity|].
    intros r' f' Hf. destruct f'; [lia|]. cbn [skip_name app]. now rewrite E0, E1. }
  destruct (b <? 64) eqn:E2; [|discriminate].
  destruct (drop (N.to_nat b) s') as [r0|] eqn:Ed; [|discriminate].
  destruct (drop_prefix _ _ _ Ed) as (p1 & -> & Hl & Hd).
  destruct (IH _ _ H) as (p0 & -> & Hp).
  exists (b :: p1 ++ p0). split; [cbn [app]; now rewrite app_assoc|].
  intros r' f' Hf. destruct f'; [lia|]. cbn [skip_name app]. rewrite E0, E1, E2.
  rewrite <- app_assoc, Hd. apply Hp. lia.
Qed.

Lemma skip_name'_prefix s r : skip_name' s = Some r ->
  exists p, s = p ++ r /\ forall r', skip_name' (p ++ r') = Some r'.
Proof.
  unfold skip_name'. intros H. destruct (skip_name_prefix _ _ _ H) as (p & -> & Hp).
  exists p. split; [reflexivity|]. intros r'.
  rewrite <- (Hp r' (Nat.max (S (length (p ++ r))) (S (length (p ++ r'))))) by lia.
  apply skip_name_fuel; lia.
Qed.

Lemma skip_query_prefix s r : skip_query s = Some r ->
  exists p, s = p ++ r /\ forall r', skip_query (p ++ r') = Some r'.
Proof.
  unfold skip_query. destruct (skip_name' s) as [r0|] eqn:E; [|discriminate]. intros H.
  destruct (skip_name'_prefix _ _ E) as (p0 & -> & H0).
  destruct (drop_prefix _ _ _ H) as (p1 & -> & _ & H1).
  exists (p0 ++ p1). split; [now rewrite app_assoc|]. intros r'.
  now rewrite <- app_assoc, H0, H1.
Qed.

Lemma skip_queries_prefix : forall n s r, skip_queries n s = Some r ->
  exists p, s = p ++ r /\ forall r', skip_queries n (p ++ r') = Some r'.
Proof.
  induction n as [|n IH]; intros s r H; cbn [skip_queries] in *.
  - injection H as <-. exists []. auto.
  - destruct (skip_query s) as [r0|] eqn:E; [|discriminate].
    destruct (skip_query_prefix _ _ E) as (p0 & -> & H0).
    destruct (IH _ _ H) as (p1 & -> & H1).
    exists (p0 ++ p1). split; [now rewrite app_assoc|]. intros r'.
    now rewrite <- app_assoc, H0, H1.
Qed.

Lemma skip_rr_prefix s ty rl r : skip_rr s = Some (ty, rl, r) ->
  exists p, s = p ++ r /\ forall r', skip_rr (p ++ r') = Some (ty, rl, r').
Proof.
  unfold skip_rr. destruct (skip_name' s) as [r0|] eqn:E; [|discriminate].
  destruct (skip_name'_prefix _ _ E) as (p0 & -> & H0).
  destruct r0 as [|t1 [|t2 [|c1 [|c2 [|l1 [|l2 [|l3 [|l4 [|d1 [|d2 r1]]]]]]]]]]; try discriminate.
  destruct (drop (N.to_nat (be16 d1 d2)) r1) as [rest|] eqn:Ed; [|discriminate].
  intros [= <- <- <-].
  destruct (drop_prefix _ _ _ Ed) as (p1 & -> & _ & H1).
  exists (p0 ++ [t1; t2; c1; c2; l1; l2; l3; l4; d1; d2] ++ p1). split.
  - rewrite <- !app_assoc. reflexivity.
  - intros r'. rewrite <- !app_assoc, H0. cbn [app]. now rewrite H1.
Qed.

Lemma skip_plain_prefix : forall n s r, skip_plain n s = Some r ->
  exists p, s = p ++ r /\ forall r', skip_plain n (p ++ r') = Some r'.
Proof.
  induction n as [|n IH]; intros s r H; cbn [skip_plain] in *.
  - injection H as <-. exists []. auto.
  - destruct (skip_rr s) as [[[ty rl] r0]|] eqn:E; [|discriminate].
    destruct (skip_rr_prefix _ _ _ _ E) as (p0 & -> & H0).
    destruct ((ty =? T_OPT) || (ty =? T_SIG) || (ty =? T_TSIG)) eqn:Et; [discriminate|].
    destruct (IH _ _ H) as (p1 & -> & H1).
    exists (p0 ++ p1). split; [now rewrite app_assoc|]. intros r'.
    now rewrite <- app_assoc, H0, Et, H1.
Qed.

Lemma skip_add_prefix : forall n seen s r fl, skip_add n seen s = Some (r, fl) ->
  exists p, s = p ++ r /\ forall r', skip_add n seen (p ++ r') = Some (r', fl).
Proof.
  induction n as [|n IH]; intros seen s r fl H; cbn [skip_add] in *.
  - injection H as <- <-. exists []. auto.
  - destruct (skip_rr s) as [[[ty rl] r0]|] eqn:E; [|discriminate].
    destruct (skip_rr_prefix _ _ _ _ E) as (p0 & -> & H0).
    destruct seen; [discriminate|].
    destruct (IH _ _ _ _ H) as (p1 & -> & H1).
    exists (p0 ++ p1). split; [now rewrite app_assoc|]. intros r'.
    now rewrite <- app_assoc, H0, H1.
Qed.

(* the three passes of signed_bitmessage_to_buf over the sections *)
Definition skip_body (qd ap ad : nat) (s : bytes) : option (bytes * bool) :=
  match skip_queries qd s with
  | None => None
  | Some r1 => match skip_plain ap r1 with None => None | Some r2 => skip_add ad false r2 end
  end.

Lemma skip_body_prefix qd ap ad s r fl : skip_body qd ap ad s = Some (r, fl) ->
  exists p, s = p ++ r /\ forall r', skip_body qd ap ad (p ++ r') = Some (r', fl).
Proof.
  unfold skip_body. destruct (skip_queries qd s) as [r1|] eqn:E1; [|discriminate].
  destruct (skip_plain ap r1) as [r2|] eqn:E2; [|discriminate]. intros E3.
  destruct (skip_queries_prefix _ _ _ E1) as (p1 & -> & H1).
  destruct (skip_plain_prefix _ _ _ E2) as (p2 & -> & H2).
  destruct (skip_add_prefix _ _ _ _ _ E3) as (p3 & -> & H3).
  exists (p1 ++ p2 ++ p3). split; [now rewrite <- !app_assoc|]. intros r'.
  now rewrite <- !app_assoc, H1, H2, H3.
Qed.

(* two consumed prefixes of the same stream are the same prefix *)
Lemma skip_body_unique qd ap ad p1 p2 x1 x2 fl1 fl2 :
  (forall r', skip_body qd ap ad (p1 ++ r') = Some (r', fl1)) ->
  (forall r', skip_body qd ap ad (p2 ++ r') = Some (r', fl2)) ->
  p1 ++ x1 = p2 ++ x2 -> p1 = p2 /\ x1 = x2.
Proof.
  intros H1 H2 E. pose proof (H1 x1) as A. rewrite E, H2 in A. injection A as A _.
  subst x2. apply app_inv_tail in E. auto.
Qed.

(* ------------------------------------------------------------------ *)
(* inversion of [frame]                                                *)
(* ------------------------------------------------------------------ *)

Lemma parse_header_inv m h rest : parse_header m = Some (h, rest) ->
  exists hb, m = hb ++ rest /\ length hb = 12%nat.
Proof.
  unfold parse_header.
  destruct m as [|i1 [|i2 [|b2 [|b3 [|q1 [|q2 [|a1 [|a2 [|n1 [|n2 [|r1 [|r2 rest']]]]]]]]]]]]; try discriminate.
  intros [= _ <-]. exists [i1; i2; b2; b3; q1; q2; a1; a2; n1; n2; r1; r2]. auto.
Qed.

Lemma frame_signed_inv m v : frame m = FSigned v ->
  exists rest r3 e,
    parse_header m = Some (v_hdr v, rest) /\ h_ar (v_hdr v) <> 0 /\
    skip_body (N.to_nat (h_qd (v_hdr v))) (N.to_nat (h_an (v_hdr v) + h_ns (v_hdr v)))
              (N.to_nat (h_ar (v_hdr v) - 1)) rest = Some (r3, false) /\
    parse_tsig_rr m (length m - length r3) = TOk (v_tsig v) e /\
    v_body v = slice m 12 (length m - length r3 - 12).
Proof.
  unfold frame. destruct (parse_header m) as [[h rest]|] eqn:Eh; [|discriminate].
  destruct (h_ar h =? 0) eqn:Ea.
  { destruct (skip_queries _ rest); [|discriminate]. destruct (skip_plain _ _); discriminate. }
  apply N.eqb_neq in Ea.
  destruct (skip_queries (N.to_nat (h_qd h)) rest) as [r1|] eqn:E1; [|discriminate].
  destruct (skip_plain (N.to_nat (h_an h + h_ns h)) r1) as [r2|] eqn:E2; [|discriminate].
  destruct (skip_add (N.to_nat (h_ar h - 1)) false r2) as [[r3 fl]|] eqn:E3; [|discriminate].
  destruct fl; [discriminate|].
  destruct (parse_tsig_rr m (length m - length r3)) as [| |t e] eqn:Et; try discriminate.
  intros [= <-]. cbn [v_hdr v_tsig v_body]. exists rest, r3, e. repeat split; auto.
  unfold skip_body. now rewrite E1, E2, E3.
Qed.

(* the body is exactly the prefix the three passes consume *)
Lemma frame_body m v : frame m = FSigned v ->
  exists hb r3 e, m = hb ++ v_body v ++ r3 /\ length hb = 12%nat /\ h_ar (v_hdr v) <> 0 /\
    parse_tsig_rr m (length m - length r3) = TOk (v_tsig v) e /\
    forall r', skip_body (N.to_nat (h_qd (v_hdr v))) (N.to_nat (h_an (v_hdr v) + h_ns (v_hdr v)))
                 (N.to_nat (h_ar (v_hdr v) - 1)) (v_body v ++ r') = Some (r', false).
Proof.
  intros H. destruct (frame_signed_inv _ _ H) as (rest & r3 & e & Hh & Ha & Hs & Ht & Hb).
  destruct (parse_header_inv _ _ _ Hh) as (hb & -> & Hl).
  destruct (skip_body_prefix _ _ _ _ _ _ Hs) as (p & -> & Hp).
  assert (v_body v = p) as Ev.
  { rewrite Hb. unfold slice. rewrite !app_length, Hl.
    replace (12 + (length p + length r3) - length r3 - 12)%nat with (length p) by lia.
    rewrite skipn_app, skipn_all2 by lia. rewrite Hl, Nat.sub_diag. cbn [skipn app].
    rewrite firstn_app, Nat.sub_diag, firstn_all. cbn [firstn]. now rewrite app_nil_r. }
  exists hb, r3, e. rewrite Ev. repeat split; auto.
Qed.

(* ------------------------------------------------------------------ *)
(* bounds of the decoded fields                                        *)
(* ------------------------------------------------------------------ *)

Lemma at8_lt m p : bytes_ok m -> at8 m p < 256.
Proof.
  intros H. unfold at8. revert p. induction H as [|x m Hx Hm IH]; intros [|p]; cbn [nth]; try lia.
  apply IH.
Qed.

Lemma be16_lt a b : a < 256 -> b < 256 -> be16 a b < 65536.
Proof. unfold be16. lia. Qed.

Lemma at16_lt m p : bytes_ok m -> at16 m p < 65536.
Proof. intros H. unfold at16. apply be16_lt; now apply at8_lt. Qed.

Lemma at32_lt m p : bytes_ok m -> at32 m p < 4294967296.
Proof. intros H. unfold at32. pose proof (at16_lt m p H). pose proof (at16_lt m (p + 2) H). lia. Qed.

Lemma at48_lt m p : bytes_ok m -> at48 m p < 281474976710656.
Proof. intros H. unfold at48. pose proof (at16_lt m p H). pose proof (at32_lt m (p + 2) H). lia. Qed.

Lemma parse_header_bounds (m : bytes) h rest : bytes_ok m -> parse_header m = Some (h, rest) ->
  h_id h < 65536 /\ h_qd h < 65536 /\ h_an h < 65536 /\ h_ns h < 65536 /\ h_ar h < 65536.
Proof.
  unfold parse_header.
  destruct m as [|i1 [|i2 [|b2 [|b3 [|q1 [|q2 [|a1 [|a2 [|n1 [|n2 [|r1 [|r2 rest']]]]]]]]]]]]; try discriminate.
  intros Hb [= <- _]. cbn [h_id h_qd h_an h_ns h_ar].
  unfold bytes_ok in Hb. repeat (apply Forall_cons_iff in Hb; destruct Hb as [? Hb]).
  repeat split; apply be16_lt; assumption.
Qed.

Definition nonempty_labels (ls : list bytes) : Prop := Forall (fun l => l <> []) ls.

Lemma read_name_go_nonempty : forall fuel m lim pos ns mx acc el ret ls p,
  (lim <= length m)%nat -> nonempty_labels acc ->
  read_name_go fuel m lim pos ns mx acc el ret = Some (ls, p) -> nonempty_labels ls.
Proof.
  induction fuel as [|fuel IH]; intros m lim pos ns mx acc el ret ls p Hl Ha H; [discriminate|].
  cbn [read_name_go] in H.
  destruct (match mx with Some mx0 => (mx0 <=? pos)%nat | None => false end); [discriminate|].
  destruct (lim <=? pos)%nat eqn:E1; [discriminate|].
  destruct (at8 m pos =? 0) eqn:E0.
  { injection H as <- _. unfold nonempty_labels. now apply Forall_rev. }
  destruct (192 <=? at8 m pos).
  { destruct (lim <? pos + 2)%nat; [discriminate|].
    destruct (_ <? ns)%nat; [|discriminate]. eapply IH; eauto. }
  destruct (at8 m pos <? 64); [|discriminate].
  destruct (lim <? pos + 1 + N.to_nat (at8 m pos))%nat eqn:E2; [discriminate|].
  destruct (255 <? el + N.to_nat (at8 m pos) + 1)%nat; [discriminate|].
  eapply IH; [exact Hl| |exact H]. constructor; [|exact Ha].
  apply N.eqb_neq in E0. apply Nat.ltb_ge in E2.
  intros Hs. apply (f_equal (@length byte)) in Hs. unfold slice in Hs.
  rewrite firstn_length, skipn_length in Hs. cbn [length] in Hs. lia.
Qed.

Lemma read_name_nonempty m lim pos ls p :
  (lim <= length m)%nat -> read_name m lim pos = Some (ls, p) -> nonempty_labels ls.
Proof. intros Hl H. eapply read_name_go_nonempty; eauto. constructor. Qed.

Lemma parse_tsig_rr_facts (m : bytes) pos t e : bytes_ok m -> parse_tsig_rr m pos = TOk t e ->
  nonempty_labels (t_name t) /\ nonempty_labels (t_alg t) /\
  t_time t < 281474976710656 /\ t_fudge t < 65536 /\ t_oid t < 65536 /\ t_err t < 65536 /\
  N.of_nat (length (t_other t)) < 65536.
Proof.
  intros Hb. unfold parse_tsig_rr. cbv zeta.
  destruct (read_name m (length m) pos) as [[kn p1]|] eqn:En; [|discriminate].
  destruct (length m <? p1 + 10)%nat; [discriminate|].
  destruct (length m <? p1 + 10 + N.to_nat (at16 m (p1 + 8)))%nat eqn:Er; [discriminate|].
  destruct (negb _ || _); [discriminate|].
  destruct (read_name m (p1 + 10 + N.to_nat (at16 m (p1 + 8))) (p1 + 10)) as [[al p2]|] eqn:Ea; [|discriminate].
  destruct (_ <? p2 + 10)%nat; [discriminate|].
  destruct (_ <? p2 + 10 + N.to_nat (at16 m (p2 + 8)) + 6)%nat; [discriminate|].
  destruct (negb _); [discriminate|].
  intros [= <- _]. cbn [t_name t_alg t_time t_fudge t_oid t_err t_other].
  apply Nat.ltb_ge in Er.
  split; [eapply read_name_nonempty; [|exact En]; lia|].
  split; [eapply read_name_nonempty; [|exact Ea]; lia|].
  split; [now apply at48_lt|]. split; [now apply at16_lt|]. split; [now apply at16_lt|].
  split; [now apply at16_lt|].
  unfold slice. pose proof (firstn_le_length (N.to_nat (at16 m (p2 + 10 + N.to_nat (at16 m (p2 + 8)) + 4)))
     (skipn (p2 + 10 + N.to_nat (at16 m (p2 + 8)) + 6) m)) as Hle.
  pose proof (at16_lt m (p2 + 10 + N.to_nat (at16 m (p2 + 8)) + 4) Hb). lia.
Qed.

(* ------------------------------------------------------------------ *)
(* the encoders are injective                                          *)
(* ------------------------------------------------------------------ *)

Lemma enc16_inj a b : a < 65536 -> b < 65536 -> enc16 a = enc16 b -> a = b.
Proof.
  unfold enc16. intros Ha Hb [= H1 H2].
  rewrite (N.mod_small (a / 256)) in H1 by (apply N.div_lt_upper_bound; lia).
  rewrite (N.mod_small (b / 256)) in H1 by (apply N.div_lt_upper_bound; lia).
  rewrite (N.div_mod a 256), (N.div_mod b 256) by lia. now rewrite H1, H2.
Qed.

Lemma enc32_inj a b : a < 4294967296 -> b < 4294967296 -> enc32 a = enc32 b -> a = b.
Proof.
  unfold enc32. intros Ha Hb [= H1 H2 H3 H4].
  assert (forall x, x < 4294967296 ->
    x = (x / 16777216) mod 256 * 16777216 + (x / 65536) mod 256 * 65536 + (x / 256) mod 256 * 256 + x mod 256) as D.
  { intros x Hx.
    rewrite (N.mod_small (x / 16777216)) by (apply N.div_lt_upper_bound; lia).
    pose proof (N.div_mod x 256 ltac:(lia)) as E0.
    pose proof (N.div_mod (x / 256) 256 ltac:(lia)) as E1.
    pose proof (N.div_mod (x / 256 / 256) 256 ltac:(lia)) as E2.
    rewrite !N.div_div in * by lia. change (256 * 256) with 65536 in *.
    change (65536 * 256) with 16777216 in *. lia. }
  rewrite (D a Ha), (D b Hb). now rewrite H1, H2, H3, H4.
Qed.

Lemma enc48_inj a b : a < 281474976710656 -> b < 281474976710656 -> enc48 a = enc48 b -> a = b.
Proof.
  unfold enc48. intros Ha Hb H.
  apply app_len_inj in H; [|reflexivity]. destruct H as [H1 H2].
  rewrite (N.mod_small (a / 4294967296)) in H1 by (apply N.div_lt_upper_bound; lia).
  rewrite (N.mod_small (b / 4294967296)) in H1 by (apply N.div_lt_upper_bound; lia).
  apply enc16_inj in H1; try (apply N.div_lt_upper_bound; lia).
  apply enc32_inj in H2; try (apply N.mod_lt; lia).
  rewrite (N.div_mod a 4294967296), (N.div_mod b 4294967296) by lia. now rewrite H1, H2.
Qed.

Lemma enc16_len n : length (enc16 n) = 2%nat. Proof. reflexivity. Qed.
Lemma enc48_len n : length (enc48 n) = 6%nat. Proof. reflexivity. Qed.
Lemma emit_header_len h : length (emit_header h) = 12%nat. Proof. reflexivity. Qed.

(* the wire form of a name is self-delimiting *)
Lemma wire_name_inj : forall a b x y, nonempty_labels a -> nonempty_labels b ->
  wire_name a ++ x = wire_name b ++ y -> a = b /\ x = y.
Proof.
  unfold wire_name.
  induction a as [|l a IH]; intros [|k b] x y Ha Hb H; cbn [map concat app] in H.
  - injection H as ->. auto.
  - exfalso. inversion Hb as [|? ? Hk _]. cbn [app] in H. injection H as H _.
    destruct k; [contradiction|discriminate].
  - exfalso. inversion Ha as [|? ? Hl _]. cbn [app] in H. injection H as H _.
    destruct l; [contradiction|discriminate].
  - inversion Ha as [|? ? Hl Ha']. inversion Hb as [|? ? Hk Hb']. subst.
    cbn [app] in H. injection H as Hlen H. apply Nat2N.inj in Hlen.
    rewrite <- !app_assoc in H.
    apply app_len_inj in H; [|exact Hlen]. destruct H as [-> H].
    rewrite (app_assoc _ [0] x), (app_assoc _ [0] y) in H.
    destruct (IH b x y Ha' Hb' H) as [-> ->]. auto.
Qed.

Lemma lower_name_nonempty ls : nonempty_labels ls -> nonempty_labels (lower_name ls).
Proof.
  unfold nonempty_labels, lower_name. intros H. apply Forall_map.
  eapply Forall_impl; [|exact H]. intros l Hl E. apply map_eq_nil in E. contradiction.
Qed.

Lemma clear_z_lt b : b < 256 -> clear_z b < 256.
Proof. unfold clear_z. destruct (N.testbit b 6); lia. Qed.

Lemma emit_header_inj h1 h2 :
  h_id h1 < 65536 -> h_id h2 < 65536 -> h_qd h1 < 65536 -> h_qd h2 < 65536 ->
  h_an h1 < 65536 -> h_an h2 < 65536 -> h_ns h1 < 65536 -> h_ns h2 < 65536 ->
  h_ar h1 < 65536 -> h_ar h2 < 65536 ->
  emit_header h1 = emit_header h2 ->
  h_id h1 = h_id h2 /\ h_b2 h1 = h_b2 h2 /\ clear_z (h_b3 h1) = clear_z (h_b3 h2) /\
  h_qd h1 = h_qd h2 /\ h_an h1 = h_an h2 /\ h_ns h1 = h_ns h2 /\ h_ar h1 = h_ar h2.
Proof.
  intros. unfold emit_header in *.
  repeat match goal with
  | H : ?a ++ ?x = ?b ++ ?y |- _ =>
      apply app_len_inj in H; [|reflexivity]; let H1 := fresh "E" in destruct H as [H1 H]
  end.
  repeat match goal with E : enc16 _ = enc16 _ |- _ => apply enc16_inj in E; [|assumption|assumption] end.
  match goal with E : [_; _] = [_; _] |- _ => injection E as ? ? end.
  repeat split; assumption.
Qed.

(* ------------------------------------------------------------------ *)
(* the theorem                                                         *)
(* ------------------------------------------------------------------ *)

Theorem tbs_injective prev (m1 m2 : bytes) v1 v2 :
  bytes_ok m1 -> bytes_ok m2 -> frame m1 = FSigned v1 -> frame m2 = FSigned v2 ->
  tbs prev true v1 = tbs prev true v2 -> covered_of v1 = covered_of v2.
Proof.
  intros B1 B2 F1 F2 E.
  destruct (frame_body _ _ F1) as (hb1 & r31 & e1 & M1 & L1 & A1 & T1 & S1).
  destruct (frame_body _ _ F2) as (hb2 & r32 & e2 & M2 & L2 & A2 & T2 & S2).
  destruct (frame_signed_inv _ _ F1) as (rest1 & _ & _ & P1 & _).
  destruct (frame_signed_inv _ _ F2) as (rest2 & _ & _ & P2 & _).
  destruct (parse_header_bounds _ _ _ B1 P1) as (_ & Q1 & AN1 & NS1 & AR1).
  destruct (parse_header_bounds _ _ _ B2 P2) as (_ & Q2 & AN2 & NS2 & AR2).
  destruct (parse_tsig_rr_facts _ _ _ _ B1 T1) as (Kn1 & Al1 & Tm1 & Fu1 & Oi1 & Er1 & Ot1).
  destruct (parse_tsig_rr_facts _ _ _ _ B2 T2) as (Kn2 & Al2 & Tm2 & Fu2 & Oi2 & Er2 & Ot2).
  unfold tbs in E. apply app_inv_head in E.
  apply app_len_inj in E; [|reflexivity]. destruct E as [EH E].
  apply emit_header_inj in EH; unfold tbs_header in *; cbn [h_id h_qd h_an h_ns h_ar h_b2 h_b3] in *; try lia.
  destruct EH as (Eo & Eb2 & Eb3 & Eq & Ean & Ens & Ear).
  assert (Ear' : h_ar (v_hdr v1) = h_ar (v_hdr v2)) by lia.
  rewrite <- Eq, <- Ean, <- Ens, <- Ear' in S2.
  destruct (skip_body_unique _ _ _ _ _ _ _ _ _ S1 S2 E) as [Eb Ev].
  unfold tsig_vars in Ev.
  apply wire_name_inj in Ev; try (now apply lower_name_nonempty). destruct Ev as [Ek Ev].
  apply app_inv_head in Ev. apply app_inv_head in Ev.
  apply wire_name_inj in Ev; try (now apply lower_name_nonempty). destruct Ev as [Eal Ev].
  apply app_len_inj in Ev; [|reflexivity]. destruct Ev as [Et Ev]. apply enc48_inj in Et; [|assumption|assumption].
  apply app_len_inj in Ev; [|reflexivity]. destruct Ev as [Ef Ev]. apply enc16_inj in Ef; [|assumption|assumption].
  apply app_len_inj in Ev; [|reflexivity]. destruct Ev as [Ee Ev]. apply enc16_inj in Ee; [|assumption|assumption].
  apply app_len_inj in Ev; [|reflexivity]. destruct Ev as [_ Eot].
  unfold covered_of. now rewrite Eo, Eb2, Eb3, Eq, Ean, Ens, Ear', Eb, Ek, Eal, Et, Ef, Ee, Eot.
Qed.

Theorem tbs_injective_later prev (m1 m2 : bytes) v1 v2 :
  bytes_ok m1 -> bytes_ok m2 -> frame m1 = FSigned v1 -> frame m2 = FSigned v2 ->
  tbs prev false v1 = tbs prev false v2 -> covered_later_of v1 = covered_later_of v2.
Proof.
  intros B1 B2 F1 F2 E.
  destruct (frame_body _ _ F1) as (hb1 & r31 & e1 & M1 & L1 & A1 & T1 & S1).
  destruct (frame_body _ _ F2) as (hb2 & r32 & e2 & M2 & L2 & A2 & T2 & S2).
  destruct (frame_signed_inv _ _ F1) as (rest1 & _ & _ & P1 & _).
  destruct (frame_signed_inv _ _ F2) as (rest2 & _ & _ & P2 & _).
  destruct (parse_header_bounds _ _ _ B1 P1) as (_ & Q1 & AN1 & NS1 & AR1).
  destruct (parse_header_bounds _ _ _ B2 P2) as (_ & Q2 & AN2 & NS2 & AR2).
  destruct (parse_tsig_rr_facts _ _ _ _ B1 T1) as (Kn1 & Al1 & Tm1 & Fu1 & Oi1 & Er1 & Ot1).
  destruct (parse_tsig_rr_facts _ _ _ _ B2 T2) as (Kn2 & Al2 & Tm2 & Fu2 & Oi2 & Er2 & Ot2).
  unfold tbs in E. apply app_inv_head in E.
  apply app_len_inj in E; [|reflexivity]. destruct E as [EH E].
  apply emit_header_inj in EH; unfold tbs_header in *; cbn [h_id h_qd h_an h_ns h_ar h_b2 h_b3] in *; try lia.
  destruct EH as (Eo & Eb2 & Eb3 & Eq & Ean & Ens & Ear).
  assert (Ear' : h_ar (v_hdr v1) = h_ar (v_hdr v2)) by lia.
  rewrite <- Eq, <- Ean, <- Ens, <- Ear' in S2.
  destruct (skip_body_unique _ _ _ _ _ _ _ _ _ S1 S2 E) as [Eb Ev].
  apply app_len_inj in Ev; [|reflexivity]. destruct Ev as [Et Ef].
  apply enc48_inj in Et; [|assumption|assumption]. apply enc16_inj in Ef; [|assumption|assumption].
  unfold covered_later_of. now rewrite Eo, Eb2, Eb3, Eq, Ean, Ens, Ear', Eb, Et, Ef.
Qed.
