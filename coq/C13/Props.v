(* C13 — property theorems.  Statements only; proofs are short applications of the lemmas in
   AuthProofs.v (decision logic, reply signing), TbsProofs.v (MAC input determines the covered
   part) and ForgeProofs.v (modified messages, absence of panics).  [K], [mac] (the MAC function),
   [Zone] and [apply_update] (what an authorised update does: C12's subject) are universally
   quantified; no injectivity of [mac] is assumed anywhere — where it matters the conclusion offers
   an explicit MAC collision as the only alternative. *)
From Coq Require Import String.
From HV Require Import Lib.Hex Lib.Base C13.Model C13.AuthProofs C13.TbsProofs C13.ForgeProofs.
Open Scope N_scope.

(* ------------------------------------------------------------------ *)
(* 1. the server's decision is exactly "valid, timely TSIG of a configured key" *)
(* ------------------------------------------------------------------ *)

(* An UPDATE is authorised iff updates are enabled and the request decodes, ends with a TSIG
   record naming a configured key (first signer of that name, ASCII case ignored), carries that
   key's algorithm, a MAC of full length equal to the key's MAC over the reconstructed input, and
   time - fudge <= now < time + fudge, where the start saturates at 0 (truncated subtraction on N =
   u64 saturating_sub, fix 1bb1e89). *)
Theorem C13_update_authorized_iff :
  forall K (mac : alg -> K -> bytes -> bytes) c deep m now,
  (exists cx, authorize_update mac c (parse_request deep m) now = AAllow cx) <->
  allow_update c = true /\ deep = true /\ valid_tsig_request mac (signers c) m now.
Proof. intros. apply authorize_update_allow. Qed.
Print Assumptions C13_update_authorized_iff.

(* A transfer is authorised iff the policy is allow-all, or it is signed-only and the request is a
   valid, timely TSIG request.  (Deny: never.) *)
Theorem C13_axfr_authorized_iff :
  forall K (mac : alg -> K -> bytes -> bytes) c deep m now,
  (exists cx, authorize_axfr mac c (parse_request deep m) now = AAllow cx) <->
  axfr c = AllowAll \/
  (axfr c = AllowSigned /\ deep = true /\ valid_tsig_request mac (signers c) m now).
Proof. intros. apply authorize_axfr_allow. Qed.
Print Assumptions C13_axfr_authorized_iff.

(* ------------------------------------------------------------------ *)
(* 2. effects                                                          *)
(* ------------------------------------------------------------------ *)

(* Whatever an authorised update does, a zone change (or zone data in the reply) implies a valid,
   timely TSIG request. *)
Theorem C13_update_effect_implies_valid :
  forall K (mac : alg -> K -> bytes -> bytes) Zone (apply_update : bytes -> Zone -> Zone * N)
         c deep m now z z' rc cx d,
  do_update mac Zone apply_update c deep m now z = ODone z' rc cx d ->
  z' <> z \/ d = true ->
  allow_update c = true /\ deep = true /\ valid_tsig_request mac (signers c) m now.
Proof.
  intros K mac Zone ap c deep m now z z' rc cx d H E.
  pose proof (do_update_cases K mac Zone ap c deep m now z) as C. rewrite H in C.
  destruct C as (_ & -> & [(r & _ & -> & _)|(A & _)]).
  - destruct E; [contradiction|discriminate].
  - apply (authorize_update_allow K mac). eauto.
Qed.
Print Assumptions C13_update_effect_implies_valid.

(* Every request that is not a valid, timely TSIG request (unsigned, unknown key, wrong algorithm,
   MAC wrong or truncated, stale) leaves the zone as it was, returns no zone data, and is answered
   REFUSED (5) or NOTAUTH (9) — unless it is dropped undecoded (no handler runs). *)
Theorem C13_rejected_changes_nothing :
  forall K (mac : alg -> K -> bytes -> bytes) Zone (apply_update : bytes -> Zone -> Zone * N)
         c deep m now z z' rc cx d,
  ~ (allow_update c = true /\ deep = true /\ valid_tsig_request mac (signers c) m now) ->
  do_update mac Zone apply_update c deep m now z = ODone z' rc cx d ->
  z' = z /\ d = false /\ (rc = 5 \/ rc = 9).
Proof.
  intros K mac Zone ap c deep m now z z' rc cx d NV H.
  pose proof (do_update_cases K mac Zone ap c deep m now z) as C. rewrite H in C.
  destruct C as (_ & -> & [(r & A & -> & ->)|(A & _)]).
  - repeat split; auto. destruct (authorize_update_reject_code K mac _ _ _ _ _ A) as [-> | ->]; auto.
  - exfalso. apply NV. apply (authorize_update_allow K mac). eauto.
Qed.
Print Assumptions C13_rejected_changes_nothing.

(* A transfer never changes the zone; zone data is returned only under allow-all, or under
   signed-only to a valid, timely TSIG request; every other request gets REFUSED / NOTAUTH. *)
Theorem C13_axfr_data_implies_policy_or_valid :
  forall K (mac : alg -> K -> bytes -> bytes) Zone c deep m now (z z' : Zone) rc cx d,
  do_axfr mac Zone c deep m now z = ODone z' rc cx d ->
  z' = z /\
  (d = true -> axfr c = AllowAll \/
               (axfr c = AllowSigned /\ deep = true /\ valid_tsig_request mac (signers c) m now)) /\
  (d = false -> rc = 5 \/ rc = 9).
Proof.
  intros K mac Zone c deep m now z z' rc cx d H.
  pose proof (do_axfr_cases K mac Zone c deep m now z) as C. rewrite H in C.
  destruct C as (_ & -> & [(r & A & -> & ->)|(A & -> & ->)]).
  - repeat split; [discriminate|]. intros _.
    destruct (authorize_axfr_reject_code K mac _ _ _ _ _ A) as [-> | ->]; auto.
  - repeat split; [|discriminate]. intros _. apply (authorize_axfr_allow K mac). eauto.
Qed.
Print Assumptions C13_axfr_data_implies_policy_or_valid.

(* Completeness: a valid, timely request is handed to the update machinery and its reply is signed
   by the selected key over the request MAC (CSigned .. 0). *)
Theorem C13_valid_request_served :
  forall K (mac : alg -> K -> bytes -> bytes) Zone (apply_update : bytes -> Zone -> Zone * N) c m now z,
  allow_update c = true -> valid_tsig_request mac (signers c) m now ->
  exists s reqmac,
    do_update mac Zone apply_update c true m now z =
      ODone (fst (apply_update m z)) (snd (apply_update m z)) (CSigned s reqmac 0) false.
Proof.
  intros K mac Zone ap c m now z Hu Hv.
  assert (A : exists cx, authorize_update mac c (parse_request true m) now = AAllow cx)
    by (apply authorize_update_allow; auto).
  destruct A as (cx & A).
  pose proof (do_update_cases K mac Zone ap c true m now z) as C.
  destruct (do_update mac Zone ap c true m now z) as [| |z' rc cx' d] eqn:D.
  - destruct C as (_ & C). congruence.
  - unfold authorize_update in A. rewrite C in A. rewrite Hu in A. discriminate.
  - destruct C as (_ & -> & [(r & A' & _)|(A' & Eu)]); [congruence|].
    assert (cx' = cx) by congruence. subst cx'.
    (* the context of an allowed request is CSigned _ _ 0 *)
    unfold authorize_update in A. rewrite Hu in A. cbn [negb] in A.
    destruct (parse_request true m); try discriminate.
    unfold authorized_tsig in A. destruct (find_signer _ _) as [s|]; [|discriminate].
    destruct (verify_view _ _ _ _ _); try discriminate.
    destruct (in_range _ _ _); [|discriminate]. injection A as <-.
    exists s, (t_mac (v_tsig v)). now rewrite <- Eu.
Qed.
Print Assumptions C13_valid_request_served.

(* ------------------------------------------------------------------ *)
(* 3. what the MAC covers                                              *)
(* ------------------------------------------------------------------ *)

(* Two signed messages with the same MAC input agree on everything in [covered]: flags other than
   Z, all four counts, every byte between the header and the TSIG record, key name and algorithm
   name up to ASCII case, time, fudge, original id, error, other data.  (Listed as uncovered in
   Model.v: header id, Z bit, TSIG class/TTL, name case/compression, the MAC field, trailing bytes.) *)
Theorem C13_tbs_injective :
  forall prev (m1 m2 : bytes) v1 v2,
  bytes_ok m1 -> bytes_ok m2 -> frame m1 = FSigned v1 -> frame m2 = FSigned v2 ->
  tbs prev true v1 = tbs prev true v2 -> covered_of v1 = covered_of v2.
Proof. exact tbs_injective. Qed.
Print Assumptions C13_tbs_injective.

(* A request that reuses the MAC of an accepted request (any server configurations, any clocks) is
   accepted only if it agrees with it on every covered part — or a MAC collision is exhibited. *)
Theorem C13_modified_request_rejected :
  forall K (mac : alg -> K -> bytes -> bytes) (ss ss' : list (signer K)) (m m' : bytes) now now' v v',
  bytes_ok m -> bytes_ok m' ->
  valid_tsig_request mac ss m now -> valid_tsig_request mac ss' m' now' ->
  frame m = FSigned v -> frame m' = FSigned v' ->
  t_mac (v_tsig v') = t_mac (v_tsig v) ->
  covered_of v = covered_of v' \/ mac_collision mac.
Proof. intros K mac. apply (modified_request K mac). Qed.
Print Assumptions C13_modified_request_rejected.

(* ------------------------------------------------------------------ *)
(* 4. the reply                                                        *)
(* ------------------------------------------------------------------ *)

(* The reply signed by TSigResponseContext::sign for an accepted request is accepted by the
   client's verifier: [rv] is the reply as framed by the client, whose TSIG record carries the fields
   the server attached (tsig_agrees: owner name up to case — wire encoding/decoding of the record is
   C02/C03's subject), the client holds the same key, and its request time lies in the reply's
   window now - fudge <= T < now + fudge (start saturating at 0).  [mac_len]: HMAC output has the algorithm's length. *)
Theorem C13_reply_roundtrip :
  forall K (mac : alg -> K -> bytes -> bytes),
  (forall a k d, length (mac a k d) = out_len a) ->
  forall (s cs : signer K) reqmac err rid now r rv t reqtime,
  frame r = FSigned rv ->
  h_id (v_hdr rv) = rid ->
  sign_ctx mac (CSigned s reqmac err) rid now (unsigned_of rv) = Some t ->
  tsig_agrees t (v_tsig rv) ->
  lower_name (s_name cs) = lower_name (s_name s) -> s_alg cs = s_alg s -> s_key cs = s_key s ->
  now - s_fudge s <= reqtime < now + s_fudge s ->
  client_verify mac true (mkVerifier cs reqmac 0 reqtime) r =
    CRAccept (mkVerifier cs (t_mac t) now reqtime).
Proof. intros K mac L. apply (reply_roundtrip K mac L). Qed.
Print Assumptions C13_reply_roundtrip.

(* A reply that reuses the MAC of an accepted reply is accepted by the same verifier only if it
   agrees with it on every covered part, or a MAC collision is exhibited.  First message of a reply
   (remote_time = 0): the full TSIG variables are covered. *)
Theorem C13_modified_reply_rejected :
  forall K (mac : alg -> K -> bytes -> bytes) (vf : verifier K) (r r' : bytes) v v' vf1 vf2,
  vf_remote vf = 0 -> bytes_ok r -> bytes_ok r' ->
  client_verify mac true vf r = CRAccept vf1 -> client_verify mac true vf r' = CRAccept vf2 ->
  frame r = FSigned v -> frame r' = FSigned v' ->
  t_mac (v_tsig v') = t_mac (v_tsig v) ->
  covered_of v = covered_of v' \/ mac_collision mac.
Proof. intros K mac. apply (modified_first_reply K mac). Qed.
Print Assumptions C13_modified_reply_rejected.

(* Later messages of a multi-message reply (remote_time <> 0, first_message = false): header, counts,
   body, original id, time and fudge are covered (key name, algorithm, error and other data of the
   record are, by RFC 8945 5.3.1, not). *)
Theorem C13_modified_later_reply_rejected :
  forall K (mac : alg -> K -> bytes -> bytes) (vf : verifier K) (r r' : bytes) v v' vf1 vf2,
  vf_remote vf <> 0 -> bytes_ok r -> bytes_ok r' ->
  client_verify mac true vf r = CRAccept vf1 -> client_verify mac true vf r' = CRAccept vf2 ->
  frame r = FSigned v -> frame r' = FSigned v' ->
  t_mac (v_tsig v') = t_mac (v_tsig v) ->
  covered_later_of v = covered_later_of v' \/ mac_collision mac.
Proof. intros K mac. apply (modified_later_reply K mac). Qed.
Print Assumptions C13_modified_later_reply_rejected.

(* ------------------------------------------------------------------ *)
(* 5. no panics                                                        *)
(* ------------------------------------------------------------------ *)

(* With the repairs 1bb1e89 (window start saturates) and 4e36f86 (counts added in usize; a
   misplaced TSIG record is an error) no byte string, configuration, clock or MAC function makes
   the request path panic: OPanic is never the outcome. *)
Theorem C13_no_panic :
  forall K (mac : alg -> K -> bytes -> bytes) Zone (apply_update : bytes -> Zone -> Zone * N) c deep m now z,
  do_update mac Zone apply_update c deep m now z <> OPanic /\
  do_axfr mac Zone c deep m now z <> OPanic.
Proof.
  intros K mac Zone ap c deep m now z. split; intros H.
  - pose proof (do_update_cases K mac Zone ap c deep m now z) as C. rewrite H in C.
    destruct C as (_ & A). exact (authorize_update_no_panic K mac _ _ _ A).
  - pose proof (do_axfr_cases K mac Zone c deep m now z) as C. rewrite H in C.
    destruct C as (_ & A). exact (authorize_axfr_no_panic K mac _ _ _ A).
Qed.
Print Assumptions C13_no_panic.

(* verify_message_byte and TSigVerifier::verify never panic, for any bytes and any verifier state. *)
Theorem C13_client_no_panic :
  forall K (mac : alg -> K -> bytes -> bytes) deep (s : signer K) (vf : verifier K) r prev first,
  verify mac deep s r prev first <> VPanic /\ client_verify mac deep vf r <> CRPanic.
Proof.
  intros. split; [apply (verify_no_panic K mac)|apply (client_verify_no_panic K mac)].
Qed.
Print Assumptions C13_client_no_panic.

(* ------------------------------------------------------------------ *)
(* witnesses and non-vacuity (bytes taken from runs of the real implementation) *)
(* ------------------------------------------------------------------ *)

Section Examples.

Definition lbl_key : list bytes := [unhex "7570646174652d6b6579"%string; unhex "6578616d706c65"%string; unhex "636f6d"%string].
Definition s0 : signer unit := mkSigner lbl_key Sha256 tt 300.
Definition cfg0 : config unit := mkConfig true AllowSigned [s0].

(* taken from a run of the harness against the real implementation: a pristine signed UPDATE
   (key update-key.example.com., HMAC-SHA256, T=1700000248), the MAC input the server reconstructed,
   the two real HMAC values, and the server's signed reply (server clock 1700000244) *)
Definition m_ok : bytes := unhex "61f828000001000000010001076578616d706c6503636f6d0000060001056e65773130c00c000100010000007800040a01cf450a7570646174652d6b6579076578616d706c6503636f6d0000fa00ff00000000003d0b686d61632d7368613235360000006553f1f8012c002090ccd857f5e642c633800ab9d3baea2bb0423198ff5f8b9fba1a61493317573661f800000000"%string.
Definition tbs_ok : bytes := unhex "61f828000001000000010000076578616d706c6503636f6d0000060001056e65773130c00c000100010000007800040a01cf450a7570646174652d6b6579076578616d706c6503636f6d0000ff000000000b686d61632d7368613235360000006553f1f8012c00000000"%string.
Definition mac_req : bytes := unhex "90ccd857f5e642c633800ab9d3baea2bb0423198ff5f8b9fba1a614933175736"%string.
Definition mac_rep : bytes := unhex "dedc039c3c3799ced73c14db03f1da8c5f7f2d657ca03895af2e3dd95e36d1df"%string.
Definition reply_ok : bytes := unhex "61f8a8000001000000000001076578616d706c6503636f6d00000600010a7570646174652d6b6579076578616d706c6503636f6d0000fa00ff00000000003d0b686d61632d7368613235360000006553f1f4012c0020dedc039c3c3799ced73c14db03f1da8c5f7f2d657ca03895af2e3dd95e36d1df61f800000000"%string.
(* the real HMAC-SHA256 values on the two inputs that occur *)
Definition mac1 (_ : alg) (_ : unit) (d : bytes) : bytes := if bytes_eqb d tbs_ok then mac_req else mac_rep.

(* the same request with the Z bit set: a different message with the same MAC input *)
Definition m_z : bytes := firstn 3 m_ok ++ [64] ++ skipn 4 m_ok.

Lemma bytes_ok_dec (m : bytes) : forallb byteb m = true -> bytes_ok m.
Proof.
  intros H. unfold bytes_ok. apply Forall_forall. intros x Hx.
  rewrite forallb_forall in H. apply H in Hx. now apply N.ltb_lt in Hx.
Qed.

(* hypotheses of C13_update_effect_implies_valid / C13_valid_request_served are satisfiable: the
   model accepts the real request, the update machinery runs *)
Example C13_valid_request_example :
  valid_tsig_request mac1 [s0] m_ok 1700000244 /\
  do_update mac1 nat (fun _ z => (S z, 0)) cfg0 true m_ok 1700000244 O =
    ODone 1%nat 0 (CSigned s0 mac_req 0) false /\
  (* the MAC input the model reconstructs is the one the implementation reconstructed *)
  (match frame m_ok with FSigned v => tbs None true v = tbs_ok | _ => False end).
Proof.
  split; [|split; vm_compute; reflexivity].
  assert (A : exists cx, authorize_update mac1 cfg0 (parse_request true m_ok) 1700000244 = AAllow cx)
    by (vm_compute; eauto).
  apply authorize_update_allow in A. apply A.
Qed.

(* hypotheses of C13_rejected_changes_nothing: the same request one second after the window
   (now = T + fudge) is not valid and is answered NOTAUTH with a signed BADTIME *)
Example C13_stale_request_example :
  ~ valid_tsig_request mac1 [s0] m_ok (1700000248 + 300) /\
  do_update mac1 nat (fun _ z => (S z, 0)) cfg0 true m_ok (1700000248 + 300) O =
    ODone O 9 (CSigned s0 mac_req 18) false.
Proof.
  split; [|vm_compute; reflexivity].
  intros V.
  assert (A : exists cx, authorize_update mac1 cfg0 (parse_request true m_ok) (1700000248 + 300) = AAllow cx)
    by (apply authorize_update_allow; auto).
  destruct A as (cx & A). vm_compute in A. discriminate.
Qed.

(* hypotheses of C13_tbs_injective / C13_modified_request_rejected with two DIFFERENT messages:
   the Z bit is outside the MAC input (known finding C13-F7-uncovered-bits) *)
Example C13_uncovered_z_bit_example :
  m_z <> m_ok /\ bytes_ok m_ok /\ bytes_ok m_z /\
  valid_tsig_request mac1 [s0] m_z 1700000244 /\
  (match frame m_ok, frame m_z with
   | FSigned v, FSigned v' =>
       tbs None true v = tbs None true v' /\ t_mac (v_tsig v') = t_mac (v_tsig v) /\
       covered_of v = covered_of v'
   | _, _ => False end).
Proof.
  split; [vm_compute; discriminate|].
  split; [apply bytes_ok_dec; vm_compute; reflexivity|].
  split; [apply bytes_ok_dec; vm_compute; reflexivity|].
  split.
  - assert (A : exists cx, authorize_update mac1 cfg0 (parse_request true m_z) 1700000244 = AAllow cx)
      by (vm_compute; eauto).
    apply authorize_update_allow in A. apply A.
  - vm_compute. auto.
Qed.

(* hypotheses of C13_reply_roundtrip / C13_modified_reply_rejected: the real reply is
   accepted by the model's client verifier holding the request MAC and the request time *)
Example C13_reply_example :
  client_verify mac1 true (mkVerifier s0 mac_req 0 1700000248) reply_ok =
    CRAccept (mkVerifier s0 mac_rep 1700000244 1700000248) /\
  (match frame reply_ok with
   | FSigned rv =>
       match sign_ctx mac1 (CSigned s0 mac_req 0) 25080 1700000244 (unsigned_of rv) with
       | Some t => tsig_agrees t (v_tsig rv) /\ h_id (v_hdr rv) = 25080
       | None => False end
   | _ => False end).
Proof. split; [vm_compute; reflexivity|]. vm_compute. repeat split; reflexivity. Qed.

(* The former panic witnesses (known findings C13-F7-time-underflow, C13-client-count-overflow,
   C13-client-double-tsig, all repaired), as the repaired code treats them: *)

(* key update-key.example.com., time 292 < fudge 300, correct HMAC-SHA256, server clock 292: the
   window is [0, 592) and the request is served *)
Definition m_uf : bytes := unhex "ea0328000001000000020001076578616d706c6503636f6d0000060001046e657737c00c000100010000007800040a01ef29056e65773732c00c000100010000007800040a018ef70a7570646174652d6b6579076578616d706c6503636f6d0000fa00ff00000000003d0b686d61632d73686132353600000000000124012c00203d4dc04eb6f86e369bd4c2cc24a485a23e122a1fdabc02017dd9c0e96aa5e8cbea0300000000"%string.
Definition mac2 (_ : alg) (_ : unit) (_ : bytes) : bytes :=
  unhex "3d4dc04eb6f86e369bd4c2cc24a485a23e122a1fdabc02017dd9c0e96aa5e8cb"%string.

Example C13_small_time_example :
  do_update mac2 nat (fun _ z => (S z, 0)) cfg0 true m_uf 292 O = ODone 1%nat 0 (CSigned s0 (mac2 Sha256 tt []) 0) false /\
  do_update mac2 nat (fun _ z => (S z, 0)) cfg0 true m_uf 592 O = ODone O 9 (CSigned s0 (mac2 Sha256 tt []) 18) false.
Proof. split; vm_compute; reflexivity. Qed.

(* a count-edited request (ANCOUNT=0xffff, NSCOUNT=2), and the real reply with its TSIG record
   appended a second time (ARCOUNT=2): decoding errors *)
Definition m_cnt : bytes := unhex "cf7328000001ffff00020001076578616d706c6503636f6d0000060001046e657737c00c000100010000007800040a01e8ae056e65773533c00c000100010000007800040a01bd620a7570646174652d6b6579076578616d706c6503636f6d0000fa00ff00000000003d0b686d61632d7368613235360000006553f19e012c00209e6616161962ec10fcc1137ecf38b9679eb924d0f3481b296c3b87193fd87ce1cf7300000000"%string.
Definition reply_twice : bytes :=
  firstn 11 reply_ok ++ [2] ++ skipn 12 reply_ok ++ skipn 29 reply_ok.

Example C13_misframed_example :
  frame m_cnt = FErr /\ frame reply_twice = FErr /\
  client_verify mac1 true (mkVerifier s0 mac_req 0 1700000248) reply_twice = CRErr.
Proof. repeat split; vm_compute; reflexivity. Qed.

End Examples.

(* ------------------------------------------------------------------ *)
(* the refuted reading of the property, with its guarded form above    *)
(* ------------------------------------------------------------------ *)

(* "the MAC verifies over the exact request bytes" — refuted: two different byte strings are both
   valid requests under the same MAC (guarded form: C13_modified_request_rejected — they agree on
   every covered part; replayed on the real code: known finding C13-F7-uncovered-bits) *)
Theorem C13_exact_bytes_refuted :
  exists (mac : alg -> unit -> bytes -> bytes) ss m m' now,
    m <> m' /\ valid_tsig_request mac ss m now /\ valid_tsig_request mac ss m' now.
Proof.
  exists mac1, [s0], m_z, m_ok, 1700000244.
  destruct C13_uncovered_z_bit_example as (Hne & _ & _ & Hz & _).
  destruct C13_valid_request_example as (Hok & _).
  auto.
Qed.
Print Assumptions C13_exact_bytes_refuted.
