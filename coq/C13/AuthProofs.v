(* C13 — proofs about the decision logic: verify_view / authorized_tsig / authorize_update /
   authorize_axfr / do_update / do_axfr, reply signing and the client verifier. *)
From HV Require Import Lib.Base C13.Model.
Open Scope N_scope.

(* ------------------------------------------------------------------ *)
(* the declarative specification                                       *)
(* ------------------------------------------------------------------ *)

Section Spec.
Variable K : Type.
Variable mac : alg -> K -> bytes -> bytes.

(* [s] is the signer a server configured with [ss] uses for key name [kn]: the first one whose
   name equals [kn] up to ASCII case *)
Definition selects (ss : list (signer K)) (kn : list bytes) (s : signer K) : Prop :=
  exists ss1 ss2, ss = ss1 ++ s :: ss2 /\
    lower_name (s_name s) = lower_name kn /\
    Forall (fun s' => lower_name (s_name s') <> lower_name kn) ss1.

(* "the request ends with a TSIG record naming a configured key whose full-length MAC verifies
   over the request and whose time is within fudge of the server clock" *)
Definition valid_tsig_request (ss : list (signer K)) (m : bytes) (now : N) : Prop :=
  exists v s,
    frame m = FSigned v /\
    h_qd (v_hdr v) = 1 /\
    selects ss (t_name (v_tsig v)) s /\
    t_alg (v_tsig v) = alg_labels (s_alg s) /\
    t_mac (v_tsig v) = mac (s_alg s) (s_key s) (tbs None true v) /\
    (out_len (s_alg s) <= length (t_mac (v_tsig v)))%nat /\
    (* the window start saturates at 0 (subtraction on N is truncated), as in the code *)
    t_time (v_tsig v) - t_fudge (v_tsig v) <= now < t_time (v_tsig v) + t_fudge (v_tsig v).

End Spec.
Arguments selects {K}. Arguments valid_tsig_request {K}.

(* ------------------------------------------------------------------ *)
(* small facts                                                         *)
(* ------------------------------------------------------------------ *)

Lemma labels_eqb_eq a b : labels_eqb a b = true <-> a = b.
Proof. apply list_eqb_eq. intros; apply bytes_eqb_eq. Qed.

Lemma name_eqb_eq a b : name_eqb a b = true <-> lower_name a = lower_name b.
Proof. apply labels_eqb_eq. Qed.

Lemma name_eqb_neq a b : name_eqb a b = false <-> lower_name a <> lower_name b.
Proof.
  split.
  - intros H E. apply name_eqb_eq in E. congruence.
  - intros H. destruct (name_eqb a b) eqn:E; [apply name_eqb_eq in E; contradiction|reflexivity].
Qed.

Lemma alg_eqb_eq a b : alg_eqb a b = true <-> a = b.
Proof. destruct a, b; cbn; split; congruence. Qed.

Lemma alg_of_labels a : alg_of (alg_labels a) = Some a.
Proof. destruct a; vm_compute; reflexivity. Qed.

Lemma alg_of_some ls a : alg_of ls = Some a -> ls = alg_labels a.
Proof.
  unfold alg_of.
  destruct (labels_eqb ls (alg_labels Sha256)) eqn:E1; [intros [= <-]; now apply labels_eqb_eq|].
  destruct (labels_eqb ls (alg_labels Sha384)) eqn:E2; [intros [= <-]; now apply labels_eqb_eq|].
  destruct (labels_eqb ls (alg_labels Sha512)) eqn:E3; [intros [= <-]; now apply labels_eqb_eq|].
  discriminate.
Qed.

Lemma find_signer_selects K (ss : list (signer K)) kn s :
  find_signer ss kn = Some s <-> selects ss kn s.
Proof.
  unfold find_signer, selects. induction ss as [|x ss IH]; cbn [find].
  - split; [discriminate|]. intros (ss1 & ss2 & E & _). destruct ss1; discriminate.
  - destruct (name_eqb (s_name x) kn) eqn:En.
    + split.
      * intros [= ->]. exists [], ss. repeat split; [now apply name_eqb_eq|constructor].
      * intros (ss1 & ss2 & E & Hn & Hf). destruct ss1 as [|y ss1]; cbn in E.
        -- now inversion E.
        -- inversion E; subst y. inversion Hf as [|? ? Hy _]. apply name_eqb_eq in En. contradiction.
    + rewrite IH. split.
      * intros (ss1 & ss2 & -> & Hn & Hf). exists (x :: ss1), ss2. repeat split; auto.
        constructor; [now apply name_eqb_neq|assumption].
      * intros (ss1 & ss2 & E & Hn & Hf). destruct ss1 as [|y ss1]; cbn in E.
        -- inversion E; subst x. apply name_eqb_eq in Hn. congruence.
        -- inversion E; subst. inversion Hf. exists ss1, ss2. auto.
Qed.

Lemma find_signer_none K (ss : list (signer K)) kn :
  find_signer ss kn = None -> forall s, ~ selects ss kn s.
Proof. intros H s Hs. apply find_signer_selects in Hs. congruence. Qed.

Lemma selects_unique K (ss : list (signer K)) kn s1 s2 : selects ss kn s1 -> selects ss kn s2 -> s1 = s2.
Proof. intros H1 H2. apply find_signer_selects in H1, H2. congruence. Qed.

Lemma selects_in K (ss : list (signer K)) kn s : selects ss kn s -> In s ss.
Proof. intros (a & b & -> & _). apply in_or_app. right. now left. Qed.

(* ------------------------------------------------------------------ *)
(* verify_view characterised                                           *)
(* ------------------------------------------------------------------ *)

Section Decide.
Variable K : Type.
Variable mac : alg -> K -> bytes -> bytes.

Lemma verify_view_ok s v prev first mc tm lo hi :
  verify_view mac s v prev first = VOk mc tm lo hi <->
  lower_name (t_name (v_tsig v)) = lower_name (s_name s) /\
  t_alg (v_tsig v) = alg_labels (s_alg s) /\
  (out_len (s_alg s) <= length (t_mac (v_tsig v)))%nat /\
  t_mac (v_tsig v) = mac (s_alg s) (s_key s) (tbs prev first v) /\
  mc = t_mac (v_tsig v) /\ tm = t_time (v_tsig v) /\
  lo = t_time (v_tsig v) - t_fudge (v_tsig v) /\ hi = t_time (v_tsig v) + t_fudge (v_tsig v).
Proof.
  unfold verify_view.
  destruct (name_eqb (t_name (v_tsig v)) (s_name s)) eqn:En; cbn [negb].
  2:{ split; [discriminate|]. intros (H & _). apply name_eqb_neq in En. contradiction. }
  apply name_eqb_eq in En.
  destruct (alg_of (t_alg (v_tsig v))) as [a|] eqn:Ea.
  2:{ split; [discriminate|]. intros (_ & H & _). rewrite H, alg_of_labels in Ea. discriminate. }
  apply alg_of_some in Ea.
  destruct (alg_eqb a (s_alg s)) eqn:Eq; cbn [negb].
  2:{ split; [discriminate|]. intros (_ & H & _). rewrite H in Ea.
      assert (a = s_alg s) as ->.
      { destruct a, (s_alg s); vm_compute in Ea; congruence. }
      destruct (s_alg s); discriminate. }
  apply alg_eqb_eq in Eq. subst a.
  destruct (length (t_mac (v_tsig v)) <? out_len (s_alg s))%nat eqn:El.
  { split; [discriminate|]. intros (_ & _ & H & _). apply Nat.ltb_lt in El. lia. }
  apply Nat.ltb_ge in El.
  destruct (bytes_eqb (t_mac (v_tsig v)) (mac (s_alg s) (s_key s) (tbs prev first v))) eqn:Em; cbn [negb].
  2:{ split; [discriminate|]. intros (_ & _ & _ & H & _). apply bytes_eqb_eq in H. congruence. }
  apply bytes_eqb_eq in Em.
  split.
  - intros [= <- <- <- <-]. repeat split; auto.
  - intros (_ & _ & _ & _ & -> & -> & -> & ->). reflexivity.
Qed.

Lemma verify_view_never_panics s v prev first : verify_view mac s v prev first <> VPanic.
Proof.
  unfold verify_view.
  destruct (negb _); [discriminate|]. destruct (alg_of _); [|discriminate].
  destruct (negb _); [discriminate|]. destruct (_ <? _)%nat; [discriminate|].
  destruct (negb _); discriminate.
Qed.

Lemma in_range_spec lo hi now : in_range lo hi now = true <-> lo <= now < hi.
Proof. unfold in_range. rewrite andb_true_iff, N.leb_le, N.ltb_lt. tauto. Qed.

(* ------------------------------------------------------------------ *)
(* authorized_tsig                                                     *)
(* ------------------------------------------------------------------ *)

Definition view_valid (ss : list (signer K)) (v : view) (now : N) : Prop :=
  exists s,
    selects ss (t_name (v_tsig v)) s /\
    t_alg (v_tsig v) = alg_labels (s_alg s) /\
    t_mac (v_tsig v) = mac (s_alg s) (s_key s) (tbs None true v) /\
    (out_len (s_alg s) <= length (t_mac (v_tsig v)))%nat /\
    t_time (v_tsig v) - t_fudge (v_tsig v) <= now < t_time (v_tsig v) + t_fudge (v_tsig v).

Lemma authorized_tsig_allow ss v now :
  (exists cx, authorized_tsig mac ss v now = AAllow cx) <-> view_valid ss v now.
Proof.
  unfold authorized_tsig, view_valid.
  destruct (find_signer ss (t_name (v_tsig v))) as [s|] eqn:Ef.
  2:{ split; [intros (cx & H); discriminate|].
      intros (s & Hs & _). exfalso. eapply find_signer_none; eauto. }
  pose proof Ef as Hsel. apply find_signer_selects in Hsel.
  destruct (verify_view mac s v None true) as [| | | | |mc tm lo hi] eqn:Ev.
  all: try (split; [intros (cx & H); discriminate|];
            intros (s' & Hs' & Ha & Hm & Hl & Hr);
            pose proof (selects_unique _ _ _ _ _ Hsel Hs') as <-;
            assert (Hok : verify_view mac s v None true =
                      VOk (t_mac (v_tsig v)) (t_time (v_tsig v))
                          (t_time (v_tsig v) - t_fudge (v_tsig v)) (t_time (v_tsig v) + t_fudge (v_tsig v)))
              by (apply verify_view_ok; repeat split; auto;
                  destruct Hsel as (? & ? & _ & Hn & _); now rewrite Hn);
            congruence).
  apply verify_view_ok in Ev. destruct Ev as (Hn & Ha & Hl & Hm & -> & -> & -> & ->).
  destruct (in_range _ _ now) eqn:Er.
  - apply in_range_spec in Er. split; [intros _|eauto]. exists s. repeat split; auto; lia.
  - split; [intros (cx & H); discriminate|].
    intros (s' & Hs' & _ & _ & _ & Hr).
    assert (in_range (t_time (v_tsig v) - t_fudge (v_tsig v)) (t_time (v_tsig v) + t_fudge (v_tsig v)) now = true)
      by now apply in_range_spec.
    congruence.
Qed.

Lemma authorized_tsig_no_panic ss v now : authorized_tsig mac ss v now <> APanic.
Proof.
  unfold authorized_tsig. destruct (find_signer _ _) as [s|]; [|discriminate].
  destruct (verify_view mac s v None true) eqn:Ev; try discriminate.
  - exfalso. eapply verify_view_never_panics; eauto.
  - destruct (in_range _ _ _); discriminate.
Qed.

(* a rejection is REFUSED or NOTAUTH *)
Lemma authorized_tsig_reject ss v now rc cx :
  authorized_tsig mac ss v now = AReject rc cx -> rc = RNotAuth.
Proof.
  unfold authorized_tsig. destruct (find_signer _ _); [|now intros [= <- _]].
  destruct (verify_view _ _ _ _ _); try (now intros [= <- _]); try discriminate.
  destruct (in_range _ _ _); [discriminate|now intros [= <- _]].
Qed.

(* ------------------------------------------------------------------ *)
(* requests                                                            *)
(* ------------------------------------------------------------------ *)

Lemma parse_request_signed deep m v :
  parse_request deep m = QSigned v <-> deep = true /\ frame m = FSigned v /\ h_qd (v_hdr v) = 1.
Proof.
  unfold parse_request. destruct deep; cbn [negb].
  2:{ split; [discriminate|intros (? & _); discriminate]. }
  destruct (frame m) as [|h|v'] eqn:Ef.
  - split; [discriminate|intros (_ & ? & _); discriminate].
  - destruct (h_qd h =? 1); (split; [discriminate|intros (_ & ? & _); discriminate]).
  - destruct (h_qd (v_hdr v') =? 1) eqn:Eq.
    + apply N.eqb_eq in Eq. split; [intros [= <-]; auto|intros (_ & [= <-] & _); reflexivity].
    + apply N.eqb_neq in Eq. split; [discriminate|intros (_ & [= <-] & ?); contradiction].
Qed.

Lemma valid_request_view ss m now :
  valid_tsig_request mac ss m now <->
  exists v, frame m = FSigned v /\ h_qd (v_hdr v) = 1 /\ view_valid ss v now.
Proof.
  unfold valid_tsig_request, view_valid. split.
  - intros (v & s & Hf & Hq & H). exists v. repeat split; auto. exists s. exact H.
  - intros (v & Hf & Hq & s & H). exists v, s. repeat split; auto; apply H.
Qed.

Lemma authorize_update_allow c deep m now :
  (exists cx, authorize_update mac c (parse_request deep m) now = AAllow cx) <->
  allow_update c = true /\ deep = true /\ valid_tsig_request mac (signers c) m now.
Proof.
  unfold authorize_update. destruct (allow_update c); cbn [negb].
  2:{ split; [intros (? & ?); discriminate|intros (? & _); discriminate]. }
  rewrite valid_request_view.
  destruct (parse_request deep m) as [| |v] eqn:Ep.
  - split; [intros (? & ?); discriminate|].
    intros (_ & -> & v & Hf & Hq & _).
    assert (parse_request true m = QSigned v) by (apply parse_request_signed; auto). congruence.
  - split; [intros (? & ?); discriminate|].
    intros (_ & -> & v & Hf & Hq & _).
    assert (parse_request true m = QSigned v) by (apply parse_request_signed; auto). congruence.
  - apply parse_request_signed in Ep. destruct Ep as (-> & Hf & Hq).
    rewrite authorized_tsig_allow. split.
    + intros H. repeat split; auto. exists v. auto.
    + intros (_ & _ & v' & Hf' & _ & H). congruence.
Qed.

Lemma authorize_axfr_allow c deep m now :
  (exists cx, authorize_axfr mac c (parse_request deep m) now = AAllow cx) <->
  axfr c = AllowAll \/
  (axfr c = AllowSigned /\ deep = true /\ valid_tsig_request mac (signers c) m now).
Proof.
  unfold authorize_axfr. destruct (axfr c).
  - split; [intros (? & ?); discriminate|]. intros [?|(? & _)]; discriminate.
  - split; [auto|eauto].
  - rewrite valid_request_view.
    destruct (parse_request deep m) as [| |v] eqn:Ep.
    + split; [intros (? & ?); discriminate|].
      intros [?|(_ & -> & v & Hf & Hq & _)]; [discriminate|].
      assert (parse_request true m = QSigned v) by (apply parse_request_signed; auto). congruence.
    + split; [intros (? & ?); discriminate|].
      intros [?|(_ & -> & v & Hf & Hq & _)]; [discriminate|].
      assert (parse_request true m = QSigned v) by (apply parse_request_signed; auto). congruence.
    + apply parse_request_signed in Ep. destruct Ep as (-> & Hf & Hq).
      rewrite authorized_tsig_allow. split.
      * intros H. right. repeat split; auto. exists v. auto.
      * intros [?|(_ & _ & v' & Hf' & _ & H)]; [discriminate|congruence].
Qed.

End Decide.

(* ------------------------------------------------------------------ *)
(* outcomes: zone and reply                                            *)
(* ------------------------------------------------------------------ *)

Section Outcome.
Variable K : Type.
Variable mac : alg -> K -> bytes -> bytes.
Variable Zone : Type.
Variable apply_update : bytes -> Zone -> Zone * N.

Lemma do_update_cases c deep m now z :
  match do_update mac Zone apply_update c deep m now z with
  | ODropped => parse_request deep m = QErr
  | OPanic => parse_request deep m <> QErr /\ authorize_update mac c (parse_request deep m) now = APanic
  | ODone z' rc cx d =>
      parse_request deep m <> QErr /\ d = false /\
      ((exists r, authorize_update mac c (parse_request deep m) now = AReject r cx /\
                  z' = z /\ rc = rcode_num r) \/
       (authorize_update mac c (parse_request deep m) now = AAllow cx /\
        (z', rc) = apply_update m z))
  end.
Proof.
  unfold do_update.
  destruct (parse_request deep m) as [| |v] eqn:Ep; [reflexivity| |].
  all: destruct (authorize_update mac c _ now) as [|r cx|cx] eqn:Ea.
  all: try (split; [discriminate|reflexivity]).
  all: try (split; [discriminate|split; [reflexivity|left; exists r; auto]]).
  all: destruct (apply_update m z) as [z' rc] eqn:Eu; split; [discriminate|split; [reflexivity|right; auto]].
Qed.

Lemma do_axfr_cases c deep m now z :
  match do_axfr mac Zone c deep m now z with
  | ODropped => parse_request deep m = QErr
  | OPanic => parse_request deep m <> QErr /\ authorize_axfr mac c (parse_request deep m) now = APanic
  | ODone z' rc cx d =>
      parse_request deep m <> QErr /\ z' = z /\
      ((exists r, authorize_axfr mac c (parse_request deep m) now = AReject r cx /\
                  d = false /\ rc = rcode_num r) \/
       (authorize_axfr mac c (parse_request deep m) now = AAllow cx /\ d = true /\ rc = 0))
  end.
Proof.
  unfold do_axfr.
  destruct (parse_request deep m) as [| |v] eqn:Ep; [reflexivity| |].
  all: destruct (authorize_axfr mac c _ now) as [|r cx|cx] eqn:Ea.
  all: try (split; [discriminate|reflexivity]).
  all: try (split; [discriminate|split; [reflexivity|left; exists r; auto]]).
  all: split; [discriminate|split; [reflexivity|right; auto]].
Qed.

Lemma authorize_update_reject_code c r now rc cx :
  authorize_update mac c r now = AReject rc cx -> rc = RRefused \/ rc = RNotAuth.
Proof.
  unfold authorize_update. destruct (negb _); [intros [= <- _]; auto|].
  destruct r; try (intros [= <- _]; auto).
  intros H. right. eapply authorized_tsig_reject; eauto.
Qed.

Lemma authorize_axfr_reject_code c r now rc cx :
  authorize_axfr mac c r now = AReject rc cx -> rc = RRefused \/ rc = RNotAuth.
Proof.
  unfold authorize_axfr. destruct (axfr c); try (intros [= <- _]; auto); try discriminate.
  destruct r; try (intros [= <- _]; auto).
  intros H. right. eapply authorized_tsig_reject; eauto.
Qed.

Lemma authorize_update_no_panic c r now : authorize_update mac c r now <> APanic.
Proof.
  unfold authorize_update. destruct (negb _); [discriminate|].
  destruct r; try discriminate. apply authorized_tsig_no_panic.
Qed.

Lemma authorize_axfr_no_panic c r now : authorize_axfr mac c r now <> APanic.
Proof.
  unfold authorize_axfr. destruct (axfr c); try discriminate.
  destruct r; try discriminate. apply authorized_tsig_no_panic.
Qed.

End Outcome.

(* ------------------------------------------------------------------ *)
(* the signed reply verifies at the client                             *)
(* ------------------------------------------------------------------ *)

(* the TSIG record decoded from the reply carries the fields the server attached; the owner name
   may have been compressed against a name of different case *)
Definition tsig_agrees (t t' : tsig) : Prop :=
  lower_name (t_name t) = lower_name (t_name t') /\ t_alg t = t_alg t' /\ t_time t = t_time t' /\
  t_fudge t = t_fudge t' /\ t_mac t = t_mac t' /\ t_oid t = t_oid t' /\ t_err t = t_err t' /\
  t_other t = t_other t'.

Lemma tsig_vars_agrees t t' : tsig_agrees t t' -> tsig_vars t = tsig_vars t'.
Proof.
  intros (Hn & Ha & Ht & Hf & _ & _ & He & Ho). unfold tsig_vars.
  now rewrite Hn, Ha, Ht, Hf, He, Ho.
Qed.

Section Reply.
Variable K : Type.
Variable mac : alg -> K -> bytes -> bytes.
Hypothesis mac_len : forall a k d, length (mac a k d) = out_len a.

Lemma reply_tbs_eq rv reqmac st :
  t_oid (v_tsig rv) = h_id (v_hdr rv) -> tsig_vars st = tsig_vars (v_tsig rv) ->
  tbs (Some reqmac) true rv = resp_tbs reqmac (unsigned_of rv) st.
Proof.
  intros Ho Hv. unfold tbs, resp_tbs, unsigned_of, prev_part, tbs_header.
  rewrite Ho, Hv. now rewrite <- !app_assoc.
Qed.

Lemma reply_roundtrip (s cs : signer K) reqmac err rid now r rv t reqtime :
  frame r = FSigned rv ->
  h_id (v_hdr rv) = rid ->
  sign_ctx mac (CSigned s reqmac err) rid now (unsigned_of rv) = Some t ->
  tsig_agrees t (v_tsig rv) ->
  lower_name (s_name cs) = lower_name (s_name s) -> s_alg cs = s_alg s -> s_key cs = s_key s ->
  now - s_fudge s <= reqtime < now + s_fudge s ->
  client_verify mac true (mkVerifier cs reqmac 0 reqtime) r =
    CRAccept (mkVerifier cs (t_mac t) now reqtime).
Proof.
  intros Hf Hid Hs Hag Hn Ha Hk Hr.
  cbn [sign_ctx] in Hs. injection Hs as <-.
  set (st := stub rid now s err) in *.
  destruct Hag as (Hn' & Ha' & Ht' & Hf' & Hm' & Ho' & He' & Hoth').
  cbn [set_mac t_name t_alg t_time t_fudge t_mac t_oid t_err t_other st stub] in *.
  assert (Hvars : tsig_vars st = tsig_vars (v_tsig rv)).
  { unfold tsig_vars, st, stub; cbn [t_name t_alg t_time t_fudge t_err t_other].
    now rewrite Hn', Ha', Ht', Hf', He', Hoth'. }
  assert (Hv : verify_view mac cs rv (Some reqmac) true =
               VOk (t_mac (v_tsig rv)) now (now - s_fudge s) (now + s_fudge s)).
  { apply verify_view_ok. rewrite <- Ht', <- Hf'. repeat split; auto.
    - rewrite <- Hn'. now rewrite Hn.
    - now rewrite <- Ha', Ha.
    - rewrite <- Hm', mac_len, Ha. lia.
    - rewrite <- Hm', Ha, Hk. f_equal. symmetry. apply reply_tbs_eq; [congruence|exact Hvars]. }
  unfold client_verify, verify. cbn [negb vf_signer vf_prev vf_remote vf_reqtime]. rewrite Hf.
  change (0 =? 0) with true. rewrite Hv.
  assert (in_range (now - s_fudge s) (now + s_fudge s) reqtime = true) as -> by now apply in_range_spec.
  assert (0 <=? now = true) as -> by (apply N.leb_le; lia).
  cbn [andb]. now rewrite Hm'.
Qed.

End Reply.
