(* C13 — correspondence glue.  A case = one scenario of the harness: the request bytes, the reply
   bytes (if any), a table of MACs computed by the implementation's HMAC (key id, data, mac) and a
   list of observations, each re-run on the model:
     SVerify  signed_bitmessage_to_buf + TSigner::verify_message_byte on the request
              (MAC input byte for byte; verdict class)
     SSrv     Catalog + SqliteZoneHandler on the decoded request: rcode, class of the reply's TSIG
              record, zone changed, zone data returned; the reply's TSIG record field by field
              against sign_ctx on the reply as encoded without it
     SDropped the request did not decode (no handler ran)
     SCli     TSigVerifier::verify on the reply, optionally with bytes overwritten / appended
              (bit flips, count attacks, duplicated TSIG record, a chained second message) *)
From HV Require Import Lib.Base Lib.Pack C13.Model.
Open Scope N_scope.

Definition sig4 := (list pbytes * N * N * N)%type.   (* key name labels, algorithm, key id, fudge *)

Inductive sub :=
| SVerify (deep : bool) (s : sig4) (otbs : option N) (cls : N)      (* on the request; [otbs] = index in the table *)
| SSrv (now : N) (upd : bool) (pol : N) (ss : list sig4) (route rid : N)
       (obs : N * N * bool * bool)                                        (* request and reply *)
| SDropped
| SCli (ed : list (N * N)) (app : pbytes) (deep : bool) (s : sig4) (prev : pbytes) (remote reqtime : N)
       (otbs : option N) (ocl : N).   (* on the reply with bytes [ed] overwritten and [app] appended *)

Record case := mkCase {
  c_tab : list (N * pbytes * pbytes); c_req : pbytes; c_reply : option pbytes; c_subs : list sub }.

Definition alg_of_N (a : N) : alg := match a with 0 => Sha256 | 1 => Sha384 | _ => Sha512 end.
Definition signer_of (s : sig4) : signer N :=
  let '(n, a, k, f) := s in mkSigner (map unpack n) (alg_of_N a) k f.
Definition policy_of (p : N) : policy := match p with 0 => Deny | 1 => AllowAll | _ => AllowSigned end.

Definition mtab := list (N * bytes * bytes).
Definition tab_mac (t : mtab) (_ : alg) (k : N) (d : bytes) : bytes :=
  match find (fun e => N.eqb (fst (fst e)) k && bytes_eqb (snd (fst e)) d) t with
  | Some e => snd e
  | None => []
  end.

Definition vclass (v : vres) : N :=
  match v with
  | VErr => 0 | VPanic => 1 | VWrongKey => 2 | VTrunc => 3 | VBadMac => 4
  | VOk _ _ _ _ => 6
  end.

(* the observed MAC input is the data of table entry [i] *)
Definition opt_bytes_eqb (t : mtab) (a : option bytes) (b : option N) : bool :=
  match a, b with
  | None, None => true
  | Some x, Some i =>
      match nth_error t (N.to_nat i) with Some e => bytes_eqb x (snd (fst e)) | None => false end
  | _, _ => false
  end.

(* the MAC input the model reconstructs (None: no such thing) *)
Definition model_tbs (deep : bool) (m : bytes) (prev : option bytes) (first : bool) : option bytes :=
  if negb deep then None
  else match frame m with FSigned v => Some (tbs prev first v) | _ => None end.

(* a decoding error reported by the implementation where the model frames the message is not a
   disagreement (per-type RDATA decoding is not modelled); the converse is *)
Definition frames_if_deep (deep : bool) (m : bytes) : bool :=
  if deep then match frame m with FSigned _ => true | _ => false end else true.

Definition ctx_class (c : rctx N) : N :=
  match c with
  | CNone => 0 | CUnknownKey _ => 1 | CBadSig _ => 2
  | CSigned _ _ e => if e =? 0 then 3 else if e =? 18 then 4 else 8
  end.

(* the owner name of the reply's TSIG record may be compressed against an earlier name that differs
   in case: compared as names *)
Definition tsig_eqb (a b : tsig) : bool :=
  name_eqb (t_name a) (t_name b) && (t_class a =? t_class b) && (t_ttl a =? t_ttl b) &&
  labels_eqb (t_alg a) (t_alg b) && (t_time a =? t_time b) && (t_fudge a =? t_fudge b) &&
  bytes_eqb (t_mac a) (t_mac b) && (t_oid a =? t_oid b) && (t_err a =? t_err b) &&
  bytes_eqb (t_other a) (t_other b).

Definition request_id (m : bytes) : N :=
  match parse_header m with Some (h, _) => h_id h | None => 0 end.

Definition reply_ok (mc : alg -> N -> bytes -> bytes) (cx : rctx N) (rid now : N) (reply : option bytes) : bool :=
  match reply with
  | None => false
  | Some r =>
    match frame r with
    | FSigned rv =>
        match sign_ctx mc cx rid now (unsigned_of rv) with
        | Some t => tsig_eqb t (v_tsig rv) && (h_id (v_hdr rv) =? rid)
        | None => false
        end
    | FUnsigned _ => match cx with CNone => true | _ => false end
    | _ => false
    end
  end.

Definition b2n (b : bool) : N := if b then 1 else 0.

Definition srv_outcome (mc : alg -> N -> bytes -> bytes) (m : bytes) (now : N) (upd : bool) (pol : N)
    (ss : list sig4) (route : N) : outcome N N :=
  let cfg := mkConfig upd (policy_of pol) (map signer_of ss) in
  if route =? 0 then do_update mc N (fun _ _ => (1, 0)) cfg true m now 0
  else do_axfr mc N cfg true m now 0.

Definition set_byte (m : bytes) (p v : N) : bytes :=
  firstn (N.to_nat p) m ++ match skipn (N.to_nat p) m with _ :: r => v :: r | [] => [] end.
Definition edited (ed : list (N * N)) (app : pbytes) (m : bytes) : bytes :=
  fold_left (fun m e => set_byte m (fst e) (snd e)) ed m ++ unpack app.

Definition cli_class (mc : alg -> N -> bytes -> bytes) (deep : bool) (sg : sig4) (prev : bytes)
    (remote reqtime : N) (r : bytes) : N :=
  match client_verify mc deep (mkVerifier (signer_of sg) prev remote reqtime) r with
  | CRAccept _ => 1 | CRPanic => 9 | _ => 0 end.

Definition check_sub (t : mtab) (m : bytes) (reply : option bytes) (s : sub) : bool :=
  let mc := tab_mac t in
  match s with
  | SVerify deep sg otbs cls =>
      frames_if_deep deep m &&
      opt_bytes_eqb t (model_tbs deep m None true) otbs &&
      (vclass (verify mc deep (signer_of sg) m None true) =? cls)
  | SSrv now upd pol ss route rid obs =>
      let '(rc, tcls, changed, data) := obs in
      (request_id m =? rid) &&
      match srv_outcome mc m now upd pol ss route with
      | OPanic => rc =? 99
      | ODropped => false
      | ODone z rc' cx data' =>
          (rc =? rc') && (b2n changed =? z) && Bool.eqb data data' && (tcls =? ctx_class cx) &&
          reply_ok mc cx rid now reply
      end
  | SDropped => true
  | SCli ed app deep sg prev remote reqtime otbs ocl =>
      match reply with
      | None => false
      | Some r =>
        let r := edited ed app r in
        let prev := unpack prev in
        frames_if_deep deep r &&
        opt_bytes_eqb t (model_tbs deep r (Some prev) (remote =? 0)) otbs &&
        (cli_class mc deep sg prev remote reqtime r =? ocl)
      end
  end.

Definition unpack_tab (t : list (N * pbytes * pbytes)) : mtab :=
  map (fun e => (fst (fst e), unpack (snd (fst e)), unpack (snd e))) t.

Definition check (c : case) : bool :=
  let t := unpack_tab (c_tab c) in
  let m := unpack (c_req c) in
  let reply := option_map unpack (c_reply c) in
  forallb (check_sub t m reply) (c_subs c).

Definition bad (cs : list case) : list N := bad_idx check 0 cs.

(* full model output for one case (replay files): per observation the model's verdict class, the
   MAC input it reconstructs, and for the server the outcome *)
Inductive shown :=
| ShVerify (cls : N) (tbs : option bytes)
| ShSrv (panic dropped : bool) (rc z tcls : N) (data : bool) (reply_matches : bool)
| ShDropped
| ShCli (cls : N) (tbs : option bytes).

Definition show_sub (t : mtab) (m : bytes) (reply : option bytes) (s : sub) : shown :=
  let mc := tab_mac t in
  match s with
  | SVerify deep sg _ _ =>
      ShVerify (vclass (verify mc deep (signer_of sg) m None true)) (model_tbs deep m None true)
  | SSrv now upd pol ss route rid _ =>
      match srv_outcome mc m now upd pol ss route with
      | OPanic => ShSrv true false 0 0 0 false false
      | ODropped => ShSrv false true 0 0 0 false false
      | ODone z rc cx data => ShSrv false false rc z (ctx_class cx) data (reply_ok mc cx rid now reply)
      end
  | SDropped => ShDropped
  | SCli ed app deep sg prev remote reqtime _ _ =>
      match reply with
      | None => ShCli 99 None
      | Some r =>
        let r := edited ed app r in let prev := unpack prev in
        ShCli (cli_class mc deep sg prev remote reqtime r) (model_tbs deep r (Some prev) (remote =? 0))
      end
  end.

Definition show (c : case) : list shown :=
  let t := unpack_tab (c_tab c) in
  map (show_sub t (unpack (c_req c)) (option_map unpack (c_reply c))) (c_subs c).
