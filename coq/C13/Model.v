(* C13 — model of TSIG request authentication and reply signing.

   Anchored code (hickory-dns):
     crates/proto/src/rr/rdata/tsig.rs   signed_bitmessage_to_buf, TSIG::read_data,
                                         emit_tsig_for_mac, TsigAlgorithm::{read,from_name,output_len}
     crates/proto/src/rr/tsig.rs         TSigner::verify_message_byte, encode_response_tbs,
                                         TSigResponseContext::sign, TSigVerifier::verify
     crates/proto/src/op/message.rs      Message::read_records (TSIG last, only in additional)
     crates/proto/src/op/header.rs       Header::read / emit (Z bit dropped on re-emission)
     crates/proto/src/rr/domain/name.rs  read_inner (labels, compression pointers, 255 limit)
     crates/server/src/store/sqlite/mod.rs  authorized_tsig, authorize_update, authorize_axfr,
                                         update (authorise before anything else), zone_transfer

   The message is a list of bytes.  The model parses exactly as far as the code needs to locate
   the TSIG record ("framing": owner names are skipped label by label, RDATA by RDLENGTH) and
   parses the TSIG record itself completely, compression pointers included.  Whether all the other
   records of the message are acceptable to the real per-type RDATA decoders is a boolean input
   [deep] (false = the real parser returned an error somewhere; the request is then dropped before
   any handler runs).  The MAC function is a Section variable.  No proofs in this file. *)
From HV Require Import Lib.Base.
Open Scope N_scope.

Definition bytes := list byte.

(* ------------------------------------------------------------------ *)
(* integers on the wire                                                *)
(* ------------------------------------------------------------------ *)

Definition be16 (a b : byte) : N := a * 256 + b.
Definition enc16 (n : N) : bytes := [(n / 256) mod 256; n mod 256].
Definition enc32 (n : N) : bytes :=
  [(n / 16777216) mod 256; (n / 65536) mod 256; (n / 256) mod 256; n mod 256].
(* ((time >> 32) as u16).emit ; (time as u32).emit *)
Definition enc48 (n : N) : bytes := enc16 ((n / 4294967296) mod 65536) ++ enc32 (n mod 4294967296).

Definition at8 (m : bytes) (p : nat) : N := nth p m 0.
Definition at16 (m : bytes) (p : nat) : N := be16 (at8 m p) (at8 m (S p)).
Definition at32 (m : bytes) (p : nat) : N := at16 m p * 65536 + at16 m (p + 2).
Definition at48 (m : bytes) (p : nat) : N := at16 m p * 4294967296 + at32 m (p + 2).
Definition slice (m : bytes) (p n : nat) : bytes := firstn n (skipn p m).

(* ------------------------------------------------------------------ *)
(* header                                                              *)
(* ------------------------------------------------------------------ *)

Record header := mkHeader {
  h_id : N; h_b2 : byte; h_b3 : byte; h_qd : N; h_an : N; h_ns : N; h_ar : N }.

Definition parse_header (m : bytes) : option (header * bytes) :=
  match m with
  | i1 :: i2 :: b2 :: b3 :: q1 :: q2 :: a1 :: a2 :: n1 :: n2 :: r1 :: r2 :: rest =>
      Some (mkHeader (be16 i1 i2) b2 b3 (be16 q1 q2) (be16 a1 a2) (be16 n1 n2) (be16 r1 r2), rest)
  | _ => None
  end.

(* Header::emit after Header::read: QR, opcode, AA, TC, RD, RA, AD, CD and the low RCODE bits are
   reproduced; bit 6 of the fourth byte (Z) has no field and is emitted as 0 *)
Definition clear_z (b : byte) : byte := if N.testbit b 6 then b - 64 else b.
Definition emit_header (h : header) : bytes :=
  enc16 (h_id h) ++ [h_b2 h; clear_z (h_b3 h)] ++
  enc16 (h_qd h) ++ enc16 (h_an h) ++ enc16 (h_ns h) ++ enc16 (h_ar h).

(* ------------------------------------------------------------------ *)
(* framing: skipping questions and records                             *)
(* ------------------------------------------------------------------ *)

Definition drop (n : nat) (s : bytes) : option bytes :=
  if (n <=? length s)%nat then Some (skipn n s) else None.

(* the bytes the outer decoder consumes for a name: labels up to the root byte or up to and
   including the first compression pointer *)
Fixpoint skip_name (fuel : nat) (s : bytes) : option bytes :=
  match fuel with
  | O => None
  | S f =>
    match s with
    | [] => None
    | b :: s' =>
        if b =? 0 then Some s'
        else if 192 <=? b then match s' with _ :: s'' => Some s'' | [] => None end
        else if b <? 64 then
          match drop (N.to_nat b) s' with Some r => skip_name f r | None => None end
        else None
    end
  end.
Definition skip_name' (s : bytes) : option bytes := skip_name (S (length s)) s.

(* Query::read: name, type, class *)
Definition skip_query (s : bytes) : option bytes :=
  match skip_name' s with Some r => drop 4 r | None => None end.

Fixpoint skip_queries (n : nat) (s : bytes) : option bytes :=
  match n with
  | O => Some s
  | S n' => match skip_query s with Some r => skip_queries n' r | None => None end
  end.

(* Record::read as far as framing goes: name, type, class, ttl, rdlength, rdata.
   Result: type, rdlength, rest *)
Definition skip_rr (s : bytes) : option (N * N * bytes) :=
  match skip_name' s with
  | None => None
  | Some r =>
    match r with
    | t1 :: t2 :: _ :: _ :: _ :: _ :: _ :: _ :: l1 :: l2 :: r' =>
        let rdlen := be16 l1 l2 in
        match drop (N.to_nat rdlen) r' with
        | Some rest => Some (be16 t1 t2, rdlen, rest)
        | None => None
        end
    | _ => None
    end
  end.

Definition T_TSIG : N := 250.
Definition T_OPT : N := 41.
Definition T_SIG : N := 24.

(* read_records(.., is_additional = false): OPT, SIG and TSIG are refused *)
Fixpoint skip_plain (n : nat) (s : bytes) : option bytes :=
  match n with
  | O => Some s
  | S n' =>
    match skip_rr s with
    | None => None
    | Some (ty, _, r) =>
        if (ty =? T_OPT) || (ty =? T_SIG) || (ty =? T_TSIG) then None else skip_plain n' r
    end
  end.

(* read_records(.., is_additional = true): a record following a TSIG record is an error
   (RecordAfterSig); [seen] = a TSIG record (type 250, non-empty RDATA) was the previous one.
   The returned flag says that the LAST record read was a TSIG record. *)
Fixpoint skip_add (n : nat) (seen : bool) (s : bytes) : option (bytes * bool) :=
  match n with
  | O => Some (s, seen)
  | S n' =>
    match skip_rr s with
    | None => None
    | Some (ty, rdlen, r) =>
        if seen then None else skip_add n' ((ty =? T_TSIG) && negb (rdlen =? 0)) r
    end
  end.

(* ------------------------------------------------------------------ *)
(* names with compression (read_inner), for the two names of the TSIG record *)
(* ------------------------------------------------------------------ *)

(* [lim] = end of the decoder's buffer (the message, or the end of the RDATA for a name inside
   RDATA); [nstart] = name_start; [maxi] = ptr_max_idx; [elen] = Name::encoded_len so far;
   [ret] = where the outer decoder continues once a pointer has been followed *)
Fixpoint read_name_go (fuel : nat) (m : bytes) (lim pos nstart : nat) (maxi : option nat)
    (acc : list bytes) (elen : nat) (ret : option nat) : option (list bytes * nat) :=
  match fuel with
  | O => None
  | S f =>
    if match maxi with Some mx => (mx <=? pos)%nat | None => false end then None
    else if (lim <=? pos)%nat then None
    else
      let b := at8 m pos in
      if b =? 0 then Some (rev acc, match ret with Some r => r | None => S pos end)
      else if 192 <=? b then
        if (lim <? pos + 2)%nat then None
        else
          let ptr := N.to_nat ((b - 192) * 256 + at8 m (S pos)) in
          if (ptr <? nstart)%nat then
            read_name_go f m lim ptr ptr (Some nstart) acc elen
              (match ret with Some r => Some r | None => Some (pos + 2)%nat end)
          else None
      else if b <? 64 then
        let l := N.to_nat b in
        if (lim <? pos + 1 + l)%nat then None
        else if (255 <? elen + l + 1)%nat then None
        else read_name_go f m lim (pos + 1 + l)%nat nstart maxi
               (slice m (S pos) l :: acc) (elen + l + 1)%nat ret
      else None
  end.

Definition read_name (m : bytes) (lim pos : nat) : option (list bytes * nat) :=
  read_name_go (length m + 130) m lim pos pos None [] 1 None.

Definition lower_byte (b : byte) : byte := if (65 <=? b) && (b <=? 90) then b + 32 else b.
Definition lower_name (n : list bytes) : list bytes := map (map lower_byte) n.
Definition wire_name (n : list bytes) : bytes :=
  concat (map (fun l => N.of_nat (length l) :: l) n) ++ [0].

(* Name == Name: both fully qualified, labels equal ignoring ASCII case *)
Definition labels_eqb (a b : list bytes) : bool := list_eqb bytes_eqb a b.
Definition name_eqb (a b : list bytes) : bool := labels_eqb (lower_name a) (lower_name b).

(* ------------------------------------------------------------------ *)
(* the TSIG record                                                     *)
(* ------------------------------------------------------------------ *)

Record tsig := mkTsig {
  t_name : list bytes;   (* owner = key name, labels as read (case preserved) *)
  t_class : N; t_ttl : N;
  t_alg : list bytes;    (* algorithm name, labels as read *)
  t_time : N; t_fudge : N; t_mac : bytes; t_oid : N; t_err : N; t_other : bytes }.

Inductive tres := TNot | TErr | TOk (t : tsig) (e : nat).

(* Record::read + TSIG::read_data at position [pos] of message [m] *)
Definition parse_tsig_rr (m : bytes) (pos : nat) : tres :=
  let len := length m in
  match read_name m len pos with
  | None => TErr
  | Some (kn, p1) =>
    if (len <? p1 + 10)%nat then TErr
    else
      let ty := at16 m p1 in
      let rdlen := N.to_nat (at16 m (p1 + 8)) in
      let r0 := (p1 + 10)%nat in
      let r1 := (r0 + rdlen)%nat in
      if (len <? r1)%nat then TErr
      else if negb (ty =? T_TSIG) || (rdlen =? 0)%nat then TNot
      else
        match read_name m r1 r0 with
        | None => TErr
        | Some (alg, p2) =>
          if (r1 <? p2 + 10)%nat then TErr
          else
            let msz := N.to_nat (at16 m (p2 + 8)) in
            let p3 := (p2 + 10)%nat in
            if (r1 <? p3 + msz + 6)%nat then TErr
            else
              let p4 := (p3 + msz)%nat in
              let olen := N.to_nat (at16 m (p4 + 4)) in
              if negb (p4 + 6 + olen =? r1)%nat then TErr
              else
                TOk (mkTsig kn (at16 m (p1 + 2)) (at32 m (p1 + 4)) alg
                       (at48 m p2) (at16 m (p2 + 6)) (slice m p3 msz)
                       (at16 m p4) (at16 m (p4 + 2)) (slice m (p4 + 6) olen)) r1
        end
  end.

(* ------------------------------------------------------------------ *)
(* a framed, signed message                                            *)
(* ------------------------------------------------------------------ *)

Record view := mkView {
  v_hdr : header;    (* as received *)
  v_body : bytes;    (* the bytes between the header and the TSIG record *)
  v_tsig : tsig;
  v_trail : bytes }. (* bytes after the TSIG record: never looked at *)

Inductive fres :=
| FErr                 (* a decoding error *)
| FUnsigned (h : header)  (* decodes; the last additional record is not a TSIG record (or ARCOUNT = 0) *)
| FSigned (v : view).

Definition frame (m : bytes) : fres :=
  match parse_header m with
  | None => FErr
  | Some (h, rest) =>
    if h_ar h =? 0 then
      (* still has to decode as a message *)
      match skip_queries (N.to_nat (h_qd h)) rest with
      | None => FErr
      | Some r1 => match skip_plain (N.to_nat (h_an h + h_ns h)) r1 with
                   | None => FErr | Some _ => FUnsigned h end
      end
    else
    match skip_queries (N.to_nat (h_qd h)) rest with
    | None => FErr
    | Some r1 =>
      match skip_plain (N.to_nat (h_an h + h_ns h)) r1 with
      | None => FErr
      | Some r2 =>
        match skip_add (N.to_nat (h_ar h - 1)) false r2 with
        | None => FErr
        | Some (r3, true) => FErr   (* "TSIG record before the end of the additional section" *)
        | Some (r3, false) =>
            let pos := (length m - length r3)%nat in
            match parse_tsig_rr m pos with
            | TErr => FErr
            | TNot => FUnsigned h
            | TOk t e => FSigned (mkView h (slice m 12 (pos - 12)) t (skipn e m))
            end
        end
      end
    end
  end.

(* ------------------------------------------------------------------ *)
(* the MAC input                                                       *)
(* ------------------------------------------------------------------ *)

(* emit_tsig_for_mac *)
Definition tsig_vars (t : tsig) : bytes :=
  wire_name (lower_name (t_name t)) ++ [0; 255] ++ [0; 0; 0; 0] ++
  wire_name (lower_name (t_alg t)) ++
  enc48 (t_time t) ++ enc16 (t_fudge t) ++ enc16 (t_err t) ++
  enc16 (N.of_nat (length (t_other t))) ++ t_other t.

Definition prev_part (prev : option bytes) : bytes :=
  match prev with Some p => enc16 (N.of_nat (length p)) ++ p | None => [] end.

(* the header as it enters the MAC input: ARCOUNT - 1, ID := original id *)
Definition tbs_header (v : view) : header :=
  let h := v_hdr v in
  mkHeader (t_oid (v_tsig v)) (h_b2 h) (h_b3 h) (h_qd h) (h_an h) (h_ns h) (h_ar h - 1).

(* signed_bitmessage_to_buf *)
Definition tbs (prev : option bytes) (first : bool) (v : view) : bytes :=
  prev_part prev ++ emit_header (tbs_header v) ++ v_body v ++
  (if first then tsig_vars (v_tsig v)
   else enc48 (t_time (v_tsig v)) ++ enc16 (t_fudge (v_tsig v))).

(* what the MAC input determines about a signed message.  Not determined: the header ID (the
   original-id field stands in for it), the header Z bit, case and compression form of the key
   name and of the algorithm name, CLASS and TTL of the TSIG record, the MAC field itself, bytes
   after the TSIG record. *)
Record covered := mkCovered {
  c_oid : N; c_b2 : byte; c_b3 : byte; c_qd : N; c_an : N; c_ns : N; c_ar : N;
  c_body : bytes; c_key : list bytes; c_alg : list bytes;
  c_time : N; c_fudge : N; c_err : N; c_other : bytes }.

Definition covered_of (v : view) : covered :=
  let h := v_hdr v in let t := v_tsig v in
  mkCovered (t_oid t) (h_b2 h) (clear_z (h_b3 h)) (h_qd h) (h_an h) (h_ns h) (h_ar h)
            (v_body v) (lower_name (t_name t)) (lower_name (t_alg t))
            (t_time t) (t_fudge t) (t_err t) (t_other t).

(* for the second and later messages of a multi-message reply (first_message = false) only time
   and fudge of the TSIG record enter the MAC input *)
Definition covered_later_of (v : view) : covered :=
  let h := v_hdr v in let t := v_tsig v in
  mkCovered (t_oid t) (h_b2 h) (clear_z (h_b3 h)) (h_qd h) (h_an h) (h_ns h) (h_ar h)
            (v_body v) [] [] (t_time t) (t_fudge t) 0 [].

(* the message as it was encoded before its TSIG record was attached (what a signer hands to
   encode_response_tbs; the encoder never sets Z) *)
Definition unsigned_of (v : view) : bytes :=
  let h := v_hdr v in
  emit_header (mkHeader (h_id h) (h_b2 h) (h_b3 h) (h_qd h) (h_an h) (h_ns h) (h_ar h - 1)) ++ v_body v.

(* ------------------------------------------------------------------ *)
(* algorithms                                                          *)
(* ------------------------------------------------------------------ *)

Inductive alg := Sha256 | Sha384 | Sha512.
Definition alg_eqb (a b : alg) : bool :=
  match a, b with Sha256, Sha256 | Sha384, Sha384 | Sha512, Sha512 => true | _, _ => false end.

Definition hmac_sha : bytes := [104; 109; 97; 99; 45; 115; 104; 97].  (* "hmac-sha" *)
Definition alg_labels (a : alg) : list bytes :=
  match a with
  | Sha256 => [hmac_sha ++ [50; 53; 54]]
  | Sha384 => [hmac_sha ++ [51; 56; 52]]
  | Sha512 => [hmac_sha ++ [53; 49; 50]]
  end.
(* TsigAlgorithm::from_name compares the presentation form exactly (case-sensitively); every
   other name is an algorithm no signer can be configured with *)
Definition alg_of (ls : list bytes) : option alg :=
  if labels_eqb ls (alg_labels Sha256) then Some Sha256
  else if labels_eqb ls (alg_labels Sha384) then Some Sha384
  else if labels_eqb ls (alg_labels Sha512) then Some Sha512
  else None.
Definition out_len (a : alg) : nat :=
  match a with Sha256 => 32 | Sha384 => 48 | Sha512 => 64 end%nat.

(* ------------------------------------------------------------------ *)
(* verification, authorisation, reply signing                          *)
(* ------------------------------------------------------------------ *)

Section WithMac.
Variable K : Type.
Variable mac : alg -> K -> bytes -> bytes.

Record signer := mkSigner { s_name : list bytes; s_alg : alg; s_key : K; s_fudge : N }.

Inductive vres :=
| VErr                 (* the message does not decode / has no TSIG record *)
| VPanic               (* the call panicked: an observation class the model never produces (C13_no_panic) *)
| VWrongKey | VTrunc | VBadMac
| VOk (m : bytes) (time lo hi : N).

(* TSigner::verify_message_byte on a framed message *)
Definition verify_view (s : signer) (v : view) (prev : option bytes) (first : bool) : vres :=
  let t := v_tsig v in
  if negb (name_eqb (t_name t) (s_name s)) then VWrongKey
  else match alg_of (t_alg t) with
  | None => VWrongKey
  | Some a =>
    if negb (alg_eqb a (s_alg s)) then VWrongKey
    else if (length (t_mac t) <? out_len (s_alg s))%nat then VTrunc
    else if negb (bytes_eqb (t_mac t) (mac (s_alg s) (s_key s) (tbs prev first v))) then VBadMac
    (* Range { start: time.saturating_sub(fudge), end: time + fudge }: subtraction on N is truncated *)
    else VOk (t_mac t) (t_time t) (t_time t - t_fudge t) (t_time t + t_fudge t)
  end.

Definition verify (deep : bool) (s : signer) (m : bytes) (prev : option bytes) (first : bool) : vres :=
  if negb deep then VErr
  else match frame m with
  | FErr | FUnsigned _ => VErr
  | FSigned v => verify_view s v prev first
  end.

(* --- the server --- *)

Inductive policy := Deny | AllowAll | AllowSigned.
Record config := mkConfig { allow_update : bool; axfr : policy; signers : list signer }.

Inductive req := QErr | QUnsigned | QSigned (v : view).

(* Request::from_bytes (MessageRequest::read: exactly one question; every additional record is read
   in one pass, so a TSIG record that is not last is an error) *)
Definition parse_request (deep : bool) (m : bytes) : req :=
  if negb deep then QErr
  else match frame m with
  | FErr => QErr
  | FUnsigned h => if h_qd h =? 1 then QUnsigned else QErr
  | FSigned v => if h_qd (v_hdr v) =? 1 then QSigned v else QErr
  end.

Inductive rcode := RNoErr | RRefused | RNotAuth.
(* TSigResponseContext *)
Inductive rctx :=
| CNone
| CUnknownKey (name : list bytes)
| CBadSig (s : signer)
| CSigned (s : signer) (reqmac : bytes) (err : N).
Inductive auth := APanic | AReject (rc : rcode) (c : rctx) | AAllow (c : rctx).

Definition find_signer (ss : list signer) (n : list bytes) : option signer :=
  find (fun s => name_eqb (s_name s) n) ss.

Definition in_range (lo hi now : N) : bool := (lo <=? now) && (now <? hi).

(* SqliteZoneHandler::authorized_tsig *)
Definition authorized_tsig (ss : list signer) (v : view) (now : N) : auth :=
  match find_signer ss (t_name (v_tsig v)) with
  | None => AReject RNotAuth (CUnknownKey (t_name (v_tsig v)))
  | Some s =>
    match verify_view s v None true with
    | VOk _ _ lo hi =>
        if in_range lo hi now then AAllow (CSigned s (t_mac (v_tsig v)) 0)
        else AReject RNotAuth (CSigned s (t_mac (v_tsig v)) 18)
    | VPanic => APanic
    | _ => AReject RNotAuth (CBadSig s)
    end
  end.

Definition authorize_update (c : config) (r : req) (now : N) : auth :=
  if negb (allow_update c) then AReject RRefused CNone
  else match r with
  | QSigned v => authorized_tsig (signers c) v now
  | _ => AReject RRefused CNone
  end.

Definition authorize_axfr (c : config) (r : req) (now : N) : auth :=
  match axfr c with
  | Deny => AReject RRefused CNone
  | AllowAll => AAllow CNone
  | AllowSigned =>
    match r with
    | QSigned v => authorized_tsig (signers c) v now
    | _ => AReject RRefused CNone
    end
  end.

(* what a request does to the zone and whether the reply carries zone data.  The effect of an
   authorised update (prerequisites, prescan, apply) is C12's subject: here a Section variable. *)
Variable Zone : Type.
Variable apply_update : bytes -> Zone -> Zone * N.

Inductive outcome :=
| OPanic
| ODropped                       (* the request did not decode: no handler runs *)
| ODone (z : Zone) (rc : N) (c : rctx) (zone_data : bool).

Definition rcode_num (r : rcode) : N := match r with RNoErr => 0 | RRefused => 5 | RNotAuth => 9 end.

(* ZoneHandler::update of the sqlite store: authorise, and only then anything else *)
Definition do_update (c : config) (deep : bool) (m : bytes) (now : N) (z : Zone) : outcome :=
  match parse_request deep m with
  | QErr => ODropped
  | r =>
    match authorize_update c r now with
    | APanic => OPanic
    | AReject rc cx => ODone z (rcode_num rc) cx false
    | AAllow cx => let (z', rc) := apply_update m z in ODone z' rc cx false
    end
  end.

(* ZoneHandler::zone_transfer of the sqlite store *)
Definition do_axfr (c : config) (deep : bool) (m : bytes) (now : N) (z : Zone) : outcome :=
  match parse_request deep m with
  | QErr => ODropped
  | r =>
    match authorize_axfr c r now with
    | APanic => OPanic
    | AReject rc cx => ODone z (rcode_num rc) cx false
    | AAllow cx => ODone z 0 cx true
    end
  end.

(* --- reply signing: TSigResponseContext::sign --- *)

Definition stub (oid time : N) (s : signer) (err : N) : tsig :=
  mkTsig (s_name s) 255 0 (alg_labels (s_alg s)) time (s_fudge s) [] oid err [].

(* TSigner::encode_response_tbs: request MAC, the encoded unsigned reply, the TSIG variables *)
Definition resp_tbs (reqmac u : bytes) (st : tsig) : bytes :=
  enc16 (N.of_nat (length reqmac)) ++ reqmac ++ u ++ tsig_vars st.

Definition set_mac (t : tsig) (mc : bytes) : tsig :=
  mkTsig (t_name t) (t_class t) (t_ttl t) (t_alg t) (t_time t) (t_fudge t) mc (t_oid t) (t_err t) (t_other t).

(* [rid] = request id, [u] = the reply as encoded without its TSIG record *)
Definition sign_ctx (c : rctx) (rid now : N) (u : bytes) : option tsig :=
  match c with
  | CNone => None
  | CUnknownKey n => Some (mkTsig n 255 0 (alg_labels Sha256) now 300 [] rid 17 [])
  | CBadSig s => Some (stub rid now s 16)
  | CSigned s reqmac err =>
      let st := stub rid now s err in
      Some (set_mac st (mac (s_alg s) (s_key s) (resp_tbs reqmac u st)))
  end.

(* --- the client: TSigVerifier --- *)

Record verifier := mkVerifier { vf_signer : signer; vf_prev : bytes; vf_remote : N; vf_reqtime : N }.
Inductive cres := CRErr | CRPanic | CROutdated | CRAccept (vf : verifier).

Definition client_verify (deep : bool) (vf : verifier) (r : bytes) : cres :=
  match verify deep (vf_signer vf) r (Some (vf_prev vf)) (vf_remote vf =? 0) with
  | VOk mc rt lo hi =>
      if (vf_remote vf <=? rt) && in_range lo hi (vf_reqtime vf)
      then CRAccept (mkVerifier (vf_signer vf) mc rt (vf_reqtime vf))
      else CROutdated
  | VPanic => CRPanic
  | _ => CRErr
  end.

End WithMac.

(* two different inputs with the same MAC (under any keys): what a forger needs *)
Definition mac_collision {K : Type} (mac : alg -> K -> bytes -> bytes) : Prop :=
  exists a k d a' k' d', d <> d' /\ mac a k d = mac a' k' d'.

Arguments mkSigner {K}.
Arguments s_name {K}. Arguments s_alg {K}. Arguments s_key {K}. Arguments s_fudge {K}.
Arguments mkConfig {K}. Arguments allow_update {K}. Arguments axfr {K}. Arguments signers {K}.
Arguments CNone {K}. Arguments CUnknownKey {K}. Arguments CBadSig {K}. Arguments CSigned {K}.
Arguments APanic {K}. Arguments AReject {K}. Arguments AAllow {K}.
Arguments OPanic {K Zone}. Arguments ODropped {K Zone}. Arguments ODone {K Zone}.
Arguments mkVerifier {K}. Arguments vf_signer {K}. Arguments vf_prev {K}. Arguments vf_remote {K}.
Arguments vf_reqtime {K}.
Arguments CRErr {K}. Arguments CRPanic {K}. Arguments CROutdated {K}. Arguments CRAccept {K}.
Arguments verify_view {K}. Arguments verify {K}. Arguments find_signer {K}.
Arguments authorized_tsig {K}. Arguments authorize_update {K}. Arguments authorize_axfr {K}.
Arguments do_update {K}. Arguments do_axfr {K}. Arguments stub {K}. Arguments sign_ctx {K}.
Arguments client_verify {K}.
