(* C16 — property theorems (statements; proofs are applications of lemmas proved in
   UdpProofs.v / MuxProofs.v).  Print Assumptions under each. *)
From HV Require Import Lib.Base C16.Model C16.UdpProofs C16.RetryProofs C16.MuxProofs.
Open Scope N_scope.

(* ------------------------------------------------------------------ *)
(* UDP: one transmission, any schedule of datagrams and socket errors   *)
(* ------------------------------------------------------------------ *)

(* The receive loop is exactly the specified relation: for EVERY list of socket results the
   outcome is the unique one allowed by [udp_spec] (accept the first matching datagram
   among the first three if only skippable ones precede it; fail on a fatal one or an io
   error; "attempts exceeded" after three skippable ones; otherwise keep waiting). *)
Theorem C16_udp_outcome_characterised : forall rq evs o,
  udp_recv rq evs = o <-> udp_spec rq evs o.
Proof. intros. symmetry. apply udp_spec_iff. Qed.
Print Assumptions C16_udp_outcome_characterised.

(* completes with datagram d  <=>  d is a matching reply (right canonical source address and
   port, a response carrying the query's id, every question one that was asked, with
   identical case under case randomisation), it is among the first three, and everything
   before it was skippable *)
Theorem C16_udp_accept_iff : forall rq evs n d,
  (exists qs, udp_recv rq evs = Accepted n d qs) <->
  ((n < 3)%nat /\ exists pre post, evs = pre ++ SDg d :: post /\ length pre = n /\
                                  Forall (skippable rq) pre /\ matching rq d).
Proof. exact accept_iff. Qed.
Print Assumptions C16_udp_accept_iff.

Theorem C16_udp_never_accepts_mismatch : forall rq evs n d qs,
  udp_recv rq evs = Accepted n d qs ->
  matching rq d /\ (n < 3)%nat /\ nth_error evs n = Some (SDg d) /\
  (forall i, (i < n)%nat -> exists e, nth_error evs i = Some e /\ skippable rq e).
Proof. exact accept_sound. Qed.
Print Assumptions C16_udp_never_accepts_mismatch.

(* at most three datagrams are examined, and after three skipped ones the transmission
   fails whatever follows (even the genuine reply) *)
Theorem C16_udp_at_most_three : forall rq evs,
  (examined (udp_recv rq evs) <= 3)%nat /\
  (forall pre post, evs = pre ++ post -> length pre = 3%nat -> Forall (skippable rq) pre ->
                    udp_recv rq evs = Exceeded).
Proof.
  intros rq evs. split; [apply examined_le|]. intros pre post -> Hl Hf. now apply flood_exceeds.
Qed.
Print Assumptions C16_udp_at_most_three.

(* the forgeries named in the property are skipped, never fatal, never accepted *)
Theorem C16_udp_forgeries_skipped : forall rq d,
  (canon (d_ip d) <> canon (r_ip rq) \/ d_port d <> r_port rq \/
   (exists id qs, d_body d = BMsg true id qs /\
      (id <> r_id rq \/
       exists e, In e qs /\ forall r, In r (r_qs rq) -> qtype r = qtype e -> qclass r = qclass e ->
                                      ~ same_name_ci (qname r) (qname e)))) ->
  skippable rq (SDg d).
Proof.
  intros rq d [H|[H|(id & qs & Hb & [H|(e & He & Hno)])]].
  - apply skip_wrong_source. intros [Hs _]. auto.
  - apply skip_wrong_source. intros [_ Hp]. auto.
  - eapply skip_wrong_id; eauto.
  - eapply skip_unasked_question; eauto.
Qed.
Print Assumptions C16_udp_forgeries_skipped.

(* address comparison: equal after canonicalisation = same address, or one is the
   IPv4-mapped IPv6 spelling of the other *)
Theorem C16_udp_canonical_source : forall x y,
  canon x = canon y <->
  match x, y with
  | V4 a, V4 b => a = b
  | V6 a, V6 b => a = b \/ (a / 4294967296 = 65535 /\ b / 4294967296 = 65535 /\ a mod 4294967296 = b mod 4294967296)
  | V4 a, V6 b => b / 4294967296 = 65535 /\ b mod 4294967296 = a
  | V6 a, V4 b => a / 4294967296 = 65535 /\ a mod 4294967296 = b
  end.
Proof. exact canon_eq_cases. Qed.
Print Assumptions C16_udp_canonical_source.

(* Non-vacuity: a request with case randomisation, two forged datagrams (wrong port, wrong
   id) and then the genuine reply from the IPv4-mapped spelling of the server address. *)
Definition ex_q : query := Q [[119; 87; 119]; [99; 111; 109]] 1 1.            (* wWw.com *)
Definition ex_rq : request := RQ (V4 3221226037) 53 4660 [ex_q] true (Some (Q [[119; 119; 119]; [99; 111; 109]] 1 1)).
Definition ex_forged1 := DG (V4 3221226037) 54 (BMsg true 4660 [ex_q]).
Definition ex_forged2 := DG (V4 3221226037) 53 (BMsg true 4661 [ex_q]).
Definition ex_genuine := DG (V6 281473902969397) 53 (BMsg true 4660 [ex_q]).
Definition ex_flipped := DG (V4 3221226037) 53 (BMsg true 4660 [Q [[119; 119; 119]; [99; 111; 109]] 1 1]).

Example C16_udp_example :
  Forall (skippable ex_rq) [SDg ex_forged1; SDg ex_forged2] /\ matching ex_rq ex_genuine /\
  fatal ex_rq ex_flipped /\
  udp_recv ex_rq [SDg ex_forged1; SDg ex_forged2; SDg ex_genuine] =
    Accepted 2 ex_genuine [Q [[119; 119; 119]; [99; 111; 109]] 1 1] /\
  udp_recv ex_rq [SDg ex_forged1; SDg ex_flipped; SDg ex_genuine] = Failed 1 ECase /\
  udp_recv ex_rq [SDg ex_forged1; SDg ex_forged2; SDg ex_forged1; SDg ex_genuine] = Exceeded.
Proof.
  assert (H1 : skippable ex_rq (SDg ex_forged1)) by (apply examine_skip; vm_compute; reflexivity).
  assert (H2 : skippable ex_rq (SDg ex_forged2)) by (apply examine_skip; vm_compute; reflexivity).
  assert (H3 : examine ex_rq ex_genuine = Accept [Q [[119; 119; 119]; [99; 111; 109]] 1 1]) by (vm_compute; reflexivity).
  assert (H4 : examine ex_rq ex_flipped = Fail ECase) by (vm_compute; reflexivity).
  apply examine_accept in H3. apply examine_fail in H4.
  split. { constructor; [exact H1|constructor; [exact H2|constructor]]. }
  split. { exact (proj1 H3). }
  split. { exact (proj1 H4). }
  split; [vm_compute; reflexivity|]. split; vm_compute; reflexivity.
Qed.

(* ------------------------------------------------------------------ *)
(* UDP: the whole request — retransmissions on fresh sockets (`retry`), *)
(* any interleaving of socket results, retry-timer ticks and the deadline *)
(* ------------------------------------------------------------------ *)

(* Whichever transmission completes the request and however retransmissions interleave: the
   accepted datagram is a matching reply that arrived on that transmission's socket, at most
   two datagrams were skipped on that socket before it, and there are at most
   max(1, max_retries) transmissions. *)
Theorem C16_udp_request_accept_sound : forall rq max_tasks sups evs i n d qs,
  udp_request rq max_tasks sups evs = RAccepted i n d qs ->
  matching rq d /\ (n < 3)%nat /\ In (URx i (SDg d)) evs /\ (i < Nat.max 1 max_tasks)%nat.
Proof. exact request_accept. Qed.
Print Assumptions C16_udp_request_accept_sound.

(* While the request is still running, after ANY script: at most max(1, max_retries)
   transmissions exist and each has examined at most two datagrams (the third examination
   always ends the request: accept, error or "attempts exceeded"). *)
Theorem C16_udp_request_bounded : forall rq max_tasks sups evs st0 st,
  start_tx (RS [] true sups) = inl st0 ->
  rafter rq max_tasks st0 evs = Some st ->
  (length (txs st) <= Nat.max 1 max_tasks)%nat /\
  Forall (fun t => (t_seen t <= 2)%nat /\ (t_left t + t_seen t = 3)%nat) (txs st).
Proof.
  intros rq max_tasks sups evs st0 st Hs Ha.
  assert (Hi0 : rinv max_tasks st0).
  { eapply start_tx_inv; [apply init_rinv| |exact Hs]. cbn [txs length]. lia. }
  destruct (rafter_inv rq max_tasks evs st0 st Hi0 Ha) as [Hf Hl]. split; [exact Hl|].
  eapply Forall_impl; [|exact Hf]. intros t [H1 H2]. unfold ATTEMPTS in H1. lia.
Qed.
Print Assumptions C16_udp_request_bounded.

(* With a single transmission the request is exactly the receive loop characterised above. *)
Theorem C16_udp_request_single_transmission : forall rq max_tasks sevs,
  udp_request rq max_tasks [] (map (URx O) sevs) = lift (udp_recv rq sevs).
Proof. exact request_single. Qed.
Print Assumptions C16_udp_request_single_transmission.

Example C16_udp_request_example :
  (* the reply to the retransmission arrives on the second socket after a forged datagram on
     the first; later events are irrelevant *)
  udp_request ex_rq 3 [] [URx 0 (SDg ex_forged2); UTick; URx 1 (SDg ex_forged1); URx 1 (SDg ex_genuine); UDeadline]
    = RAccepted 1 1 ex_genuine [Q [[119; 119; 119]; [99; 111; 109]] 1 1] /\
  (* the deadline ends a request nobody answered *)
  udp_request ex_rq 3 [] [URx 0 (SDg ex_forged2); UTick; UDeadline; URx 1 (SDg ex_genuine)] = RTimedOut /\
  (* three forged datagrams on one socket end the request although another transmission is in flight *)
  udp_request ex_rq 3 [] [UTick; URx 0 (SDg ex_forged2); URx 0 (SDg ex_forged1); URx 0 (SDg ex_forged2); URx 1 (SDg ex_genuine)]
    = RExceeded 0 /\
  exists st0 st, start_tx (RS [] true []) = inl st0 /\
                 rafter ex_rq 2 st0 [UTick; UTick; URx 1 (SDg ex_forged1)] = Some st /\ length (txs st) = 2%nat.
Proof.
  split; [vm_compute; reflexivity|]. split; [vm_compute; reflexivity|]. split; [vm_compute; reflexivity|].
  eexists. eexists. split; [reflexivity|]. split; vm_compute; reflexivity.
Qed.

(* ------------------------------------------------------------------ *)
(* Stream: DnsMultiplexer, any sequence of operations                   *)
(* ------------------------------------------------------------------ *)

Definition reached (maxact : nat) (ops : list mop) : mux := fst (run (mux_init maxact) ops).
Definition pending (st : mux) (s : nat) (sl : slot) : Prop :=
  nth_error (slots st) s = Some sl /\ c_tx (s_chan sl) = true.

(* After ANY sequence of operations (any draws of the id generator included): the ids in the
   map are pairwise distinct, at most max_active_requests are in flight, the pending requests
   (sender alive) are exactly the entries of the map, and two different pending requests
   never share an id. *)
Theorem C16_mux_ids_distinct : forall maxact ops,
  let st := reached maxact ops in
  NoDup (map fst (active st)) /\ (length (active st) <= maxact)%nat /\
  (forall s sl, pending st s sl <-> exists id, In (id, s) (active st) /\ nth_error (slots st) s = Some sl /\ s_id sl = Some id) /\
  (forall s1 s2 sl1 sl2, pending st s1 sl1 -> pending st s2 sl2 -> s_id sl1 = s_id sl2 -> s1 = s2).
Proof.
  intros maxact ops st. pose proof (reachable_inv maxact ops) as Hinv. fold (reached maxact ops) in Hinv. fold st in Hinv.
  destruct Hinv as [[H1 H2 H3 H4 H5] Hm]. split; [exact H1|]. split.
  { unfold st, reached in *. rewrite run_maxact in Hm. exact Hm. }
  split.
  - intros s sl. split.
    + intros [Hs Ht]. destruct (H5 s sl Hs Ht) as (id & Hid & Hin). exists id. auto.
    + intros (id & Hin & Hs & Hid). destruct (H3 id s Hin) as (sl' & Hs' & _ & Ht). unfold slot_of in Hs'.
      assert (sl' = sl) by congruence. subst. split; assumption.
  - intros s1 s2 sl1 sl2 [Hs1 Ht1] [Hs2 Ht2] Heq.
    eapply (pending_ids_distinct st); eauto. split; [constructor; assumption|exact Hm].
Qed.
Print Assumptions C16_mux_ids_distinct.

(* Whatever the interleaving: if polling the receiver of request number s yields a response,
   that response carries the id request s was started with. *)
Theorem C16_mux_routing : forall maxact ops j s id mk,
  nth_error ops j = Some (MTake s) ->
  nth_error (mux_run maxact ops) j = Some (OTake (TOk id mk)) ->
  nth_error (started_ids ops (mux_run maxact ops)) s = Some (Some id).
Proof.
  intros maxact ops j s id mk Hop Hob.
  exact (take_routed_trace ops (mux_init maxact) j s id mk (init_inv maxact) Hop Hob).
Qed.
Print Assumptions C16_mux_routing.

(* ... and it is a response the connection really yielded, handed out at most as often as it
   was yielded: at every point of every run, the number of times response (id, mk) has been
   handed to receivers (all requests together) is at most the number of times the stream
   yielded it so far.  So no response reaches two requests, none is duplicated or invented. *)
Theorem C16_mux_no_duplication : forall maxact ops id mk j,
  (count (is_tok id mk) (firstn j (mux_run maxact ops)) <= count (is_recv id mk) (firstn j ops))%nat.
Proof.
  intros maxact ops id mk j. unfold mux_run. rewrite run_firstn.
  pose proof (run_phi id mk (firstn j ops) (mux_init maxact)) as H. cbn [phi mux_init inq slots] in H.
  unfold phi in H. cbn in H. lia.
Qed.
Print Assumptions C16_mux_no_duplication.

(* A response whose id belongs to a pending request is appended to that request's channel
   (unless the channel is full or its receiver gone) and to no other; the map is unchanged. *)
Theorem C16_mux_delivers : forall maxact ops id mk s sl,
  let st := reached maxact ops in
  pending st s sl -> s_id sl = Some id ->
  let st' := deliver (IMsg true id mk) st in
  active st' = active st /\
  (exists sl', nth_error (slots st') s = Some sl' /\ s_id sl' = Some id /\
      c_items (s_chan sl') = if c_rx (s_chan sl) && negb (c_parked (s_chan sl))
                             then c_items (s_chan sl) ++ [IOk id mk] else c_items (s_chan sl)) /\
  (forall t, t <> s -> nth_error (slots st') t = nth_error (slots st) t).
Proof.
  intros maxact ops id mk s sl st [Hs Ht] Hid.
  exact (deliver_routes st id mk s sl (reachable_inv maxact ops) Hs Hid Ht).
Qed.
Print Assumptions C16_mux_delivers.

(* Unknown ids (no pending request has it), undecodable messages and non-responses are dropped
   without any effect. *)
Theorem C16_mux_unknown_dropped : forall maxact ops m,
  let st := reached maxact ops in
  (m = IGarbage \/ (exists id mk, m = IMsg false id mk) \/
   (exists id mk, m = IMsg true id mk /\ forall s sl, pending st s sl -> s_id sl <> Some id)) ->
  deliver m st = st.
Proof.
  intros maxact ops m st [H|[H|(id & mk & -> & Hno)]].
  - apply deliver_undecodable. auto.
  - apply deliver_undecodable. auto.
  - apply deliver_unknown; [exact (reachable_inv maxact ops)|]. intros s sl Hs Ht. apply (Hno s sl). split; assumption.
Qed.
Print Assumptions C16_mux_unknown_dropped.

(* Closing: when a poll reports the end of the connection (the stream ended, failed, or the
   multiplexer was shut down with nothing in flight), every request that was in the map has
   been completed with the error (channel permitting) and its sender dropped, nothing is
   pending any more, and in every continuation no receiver is ever left waiting. *)
Theorem C16_mux_close_fails_all : forall maxact ops,
  let st := reached maxact ops in
  (forall e id s sl, In (id, s) (active st) -> nth_error (slots st) s = Some sl ->
      nth_error (slots (close_all e st)) s = Some (fail_slot e sl) /\ active (close_all e st) = []) /\
  (snd (poll st) = PDone ->
     let st' := fst (poll st) in
     active st' = [] /\ (forall s sl, ~ pending st' s sl) /\
     forall ops2 j s, nth_error ops2 j = Some (MTake s) ->
                      nth_error (snd (run st' ops2)) j <> Some (OTake TPending)).
Proof.
  intros maxact ops st. pose proof (reachable_inv maxact ops) as Hinv. fold (reached maxact ops) in Hinv. fold st in Hinv. split.
  - intros e id s sl Hin Hs. split; [|reflexivity]. exact (close_all_fails_pending e st id s sl Hinv Hin Hs).
  - intros Hd st'. pose proof (poll_done_closed st Hinv Hd) as Hc. fold st' in Hc.
    split; [exact (proj1 (proj2 Hc))|]. split.
    + intros s sl [Hs Ht]. destruct Hc as (_ & _ & Hdead). rewrite (Hdead s sl Hs) in Ht. discriminate.
    + intros ops2 j s Hop. exact (closed_no_pending ops2 st' j s Hc Hop).
Qed.
Print Assumptions C16_mux_close_fails_all.

(* Timeouts and cancelled receivers (drop_cancelled): after any poll, a request whose timer has
   fired or whose receiver was dropped is no longer pending (its sender is gone, its id is free
   again) and its receiver is never left waiting. *)
Theorem C16_mux_timeouts_and_cancellations : forall maxact ops s sl,
  let st' := fst (poll (reached maxact ops)) in
  nth_error (slots st') s = Some sl ->
  (s_fired sl = true \/ c_rx (s_chan sl) = false) ->
  ~ pending st' s sl /\ snd (take s st') <> TPending.
Proof.
  intros maxact ops s sl st' Hs Hflag.
  destruct (poll_drops_cancelled (reached maxact ops) s sl (reachable_inv maxact ops) Hs Hflag) as [Ht Hn].
  split; [|exact Hn]. intros [_ Hp]. fold st' in Hs. congruence.
Qed.
Print Assumptions C16_mux_timeouts_and_cancellations.

Example C16_mux_timeout_example :
  mux_run 32 [MSend [7]; MSend [9]; MTimeout 0; MCancel 1; MPoll; MTake 0; MSend [7]; MRecv (IMsg true 7 1); MPoll; MTake 0; MTake 2]
  = [OSend (SStarted 7); OSend (SStarted 9); OUnit; OUnit; OPoll PPending; OTake TNone; OSend (SStarted 7); OUnit;
     OPoll PPending; OTake TNone; OTake (TOk 7 1)].
Proof. vm_compute. reflexivity. Qed.

(* Non-vacuity: three concurrent requests (the second draw of the third request collides with
   an id in flight and is skipped), responses out of order, one duplicated, one for an unknown
   id, one garbage; then the stream ends. *)
Definition ex_ops : list mop :=
  [MSend [7]; MSend [9]; MSend [7; 9; 5]; MRecv (IMsg true 5 101); MRecv (IMsg true 8 102);
   MRecv IGarbage; MRecv (IMsg true 7 103); MRecv (IMsg true 7 103); MPoll;
   MTake 2; MTake 0; MTake 0; MTake 0; MTake 1; MEof; MPoll; MTake 1; MTake 1; MTake 0].

Example C16_mux_example :
  mux_run 32 ex_ops =
  [OSend (SStarted 7); OSend (SStarted 9); OSend (SStarted 5); OUnit; OUnit; OUnit; OUnit; OUnit;
   OPoll PPending; OTake (TOk 5 101); OTake (TOk 7 103); OTake (TOk 7 103); OTake TPending;
   OTake TPending; OUnit; OPoll PDone; OTake (TErr NClosedEof); OTake TNone; OTake (TErr NClosedEof)] /\
  started_ids ex_ops (mux_run 32 ex_ops) = [Some 7; Some 9; Some 5] /\
  count (is_recv 7 103) ex_ops = 2%nat /\ count (is_tok 7 103) (mux_run 32 ex_ops) = 2%nat /\
  snd (poll (reached 32 (firstn 15 ex_ops))) = PDone /\
  (exists sl, pending (reached 32 (firstn 3 ex_ops)) 1 sl /\ s_id sl = Some 9).
Proof.
  split; [vm_compute; reflexivity|]. split; [vm_compute; reflexivity|]. split; [vm_compute; reflexivity|].
  split; [vm_compute; reflexivity|]. split; [vm_compute; reflexivity|].
  eexists. split; [split|]; vm_compute; reflexivity.
Qed.

Example C16_mux_unknown_example :
  let st := reached 32 [MSend [7]] in
  (forall s sl, pending st s sl -> s_id sl <> Some 8) /\ (exists sl, pending st 0 sl) /\
  deliver (IMsg true 8 1) st = st.
Proof.
  cbv zeta. split; [|split].
  - intros s sl [Hs Ht]. destruct s as [|[|s]]; vm_compute in Hs; inversion Hs; subst; vm_compute; discriminate.
  - eexists. split; vm_compute; reflexivity.
  - vm_compute. reflexivity.
Qed.

Example C16_mux_timeout_hyp_example :
  let st' := fst (poll (reached 32 [MSend [7]; MSend [9]; MTimeout 0; MCancel 1])) in
  (exists sl, nth_error (slots st') 0 = Some sl /\ s_fired sl = true /\ c_items (s_chan sl) = [IErr NTimeout]) /\
  (exists sl, nth_error (slots st') 1 = Some sl /\ c_rx (s_chan sl) = false) /\ active st' = [].
Proof.
  cbv zeta. split; [|split].
  - eexists. split; [|split]; vm_compute; reflexivity.
  - eexists. split; vm_compute; reflexivity.
  - vm_compute. reflexivity.
Qed.
