(* C16 — proofs about the DnsMultiplexer model: a state invariant preserved by every
   operation, and its consequences. *)
From HV Require Import Lib.Base C16.Model.
Open Scope N_scope.

(* ---------- lists ---------- *)

Lemma upd_length {A} n (f : A -> A) l : length (upd n f l) = length l.
Proof. revert n; induction l as [|x l IH]; intros [|n]; cbn [upd length]; auto. Qed.

Lemma nth_upd_same {A} n (f : A -> A) l : nth_error (upd n f l) n = option_map f (nth_error l n).
Proof. revert n; induction l as [|x l IH]; intros [|n]; cbn [upd nth_error option_map]; auto. Qed.

Lemma nth_upd_other {A} n m (f : A -> A) l : n <> m -> nth_error (upd n f l) m = nth_error l m.
Proof.
  revert n m; induction l as [|x l IH]; intros [|n] [|m] H; cbn [upd nth_error]; auto; try congruence.
Qed.

Lemma nth_upd_inv {A} n m (f : A -> A) l y :
  nth_error (upd n f l) m = Some y ->
  exists x, nth_error l m = Some x /\ ((n = m /\ y = f x) \/ (n <> m /\ y = x)).
Proof.
  intros H. destruct (Nat.eq_dec n m) as [->|Hne].
  - rewrite nth_upd_same in H. destruct (nth_error l m) as [x|]; [|discriminate].
    inversion H. exists x. auto.
  - rewrite nth_upd_other in H by exact Hne. exists y. auto.
Qed.

Lemma lookup_in id a s : lookup id a = Some s -> In (id, s) a.
Proof.
  induction a as [|[i t] a IH]; cbn [lookup]; [discriminate|].
  destruct (N.eqb i id) eqn:E.
  - apply N.eqb_eq in E. intros H; inversion H; subst. left; reflexivity.
  - intros H. right. auto.
Qed.

Lemma lookup_none id a : lookup id a = None <-> ~ In id (map fst a).
Proof.
  induction a as [|[i t] a IH]; cbn [lookup map fst In]; [tauto|].
  destruct (N.eqb i id) eqn:E.
  - apply N.eqb_eq in E. split; [discriminate|]. intros H. exfalso. apply H. left. exact E.
  - apply N.eqb_neq in E. rewrite IH. tauto.
Qed.

Lemma lookup_some_of_in id s a : NoDup (map fst a) -> In (id, s) a -> lookup id a = Some s.
Proof.
  induction a as [|[i t] a IH]; cbn [lookup map fst In]; [tauto|].
  intros Hnd [H|H].
  - inversion H; subst. now rewrite N.eqb_refl.
  - inversion Hnd as [|? ? Hni Hnd']; subst. destruct (N.eqb i id) eqn:E.
    + apply N.eqb_eq in E. subst. exfalso. apply Hni. apply (in_map fst) in H. exact H.
    + auto.
Qed.

Lemma pick_id_fresh fuel draws a id : pick_id fuel draws a = Some id -> lookup id a = None /\ In id draws.
Proof.
  revert draws; induction fuel as [|f IH]; intros [|d ds]; cbn [pick_id]; try discriminate.
  destruct (lookup d a) eqn:E.
  - intros H. destruct (IH ds H). split; [assumption|right; assumption].
  - intros H. inversion H; subst. split; [assumption|left; reflexivity].
Qed.

Lemma nodup_fst_unique {A B} (l : list (A * B)) k a b :
  NoDup (map fst l) -> In (k, a) l -> In (k, b) l -> a = b.
Proof.
  induction l as [|[k' c] l IH]; cbn [map fst In]; [tauto|].
  intros Hnd Ha Hb. inversion Hnd as [|? ? Hni Hnd']; subst.
  destruct Ha as [Ha|Ha], Hb as [Hb|Hb].
  - congruence.
  - inversion Ha; subst. exfalso. apply Hni. apply (in_map fst) in Hb. exact Hb.
  - inversion Hb; subst. exfalso. apply Hni. apply (in_map fst) in Ha. exact Ha.
  - auto.
Qed.

Lemma nodup_snd_unique {A B} (l : list (A * B)) k a b :
  NoDup (map snd l) -> In (a, k) l -> In (b, k) l -> a = b.
Proof.
  induction l as [|[c k'] l IH]; cbn [map snd In]; [tauto|].
  intros Hnd Ha Hb. inversion Hnd as [|? ? Hni Hnd']; subst.
  destruct Ha as [Ha|Ha], Hb as [Hb|Hb].
  - congruence.
  - inversion Ha; subst. exfalso. apply Hni. apply (in_map snd) in Hb. exact Hb.
  - inversion Hb; subst. exfalso. apply Hni. apply (in_map snd) in Ha. exact Ha.
  - auto.
Qed.

(* ---------- channels ---------- *)

Lemma chan_send_tx x c : c_tx (chan_send x c) = c_tx c.
Proof. unfold chan_send. destruct (c_rx c), (c_parked c); reflexivity. Qed.

Lemma chan_send_rx x c : c_rx (chan_send x c) = c_rx c.
Proof. unfold chan_send. destruct (c_rx c) eqn:E, (c_parked c); cbn; auto. Qed.

Lemma chan_send_items x c :
  c_items (chan_send x c) = if c_rx c && negb (c_parked c) then c_items c ++ [x] else c_items c.
Proof. unfold chan_send. destruct (c_rx c), (c_parked c); reflexivity. Qed.

Lemma chan_send_in y x c : In y (c_items (chan_send x c)) -> In y (c_items c) \/ y = x.
Proof.
  rewrite chan_send_items. destruct (c_rx c && negb (c_parked c)); [|auto].
  intros H. apply in_app_or in H. destruct H as [H|[H|[]]]; auto.
Qed.

(* ---------- the invariant ---------- *)

Definition slot_of (sls : list slot) (s : nat) (sl : slot) : Prop := nth_error sls s = Some sl.

Record Inv2 (a : list (N * nat)) (sls : list slot) : Prop := {
  i_ids : NoDup (map fst a);
  i_slots : NoDup (map snd a);
  i_act : forall id s, In (id, s) a ->
            exists sl, slot_of sls s sl /\ s_id sl = Some id /\ c_tx (s_chan sl) = true;
  i_items : forall s sl id mk, slot_of sls s sl -> In (IOk id mk) (c_items (s_chan sl)) -> s_id sl = Some id;
  i_tx : forall s sl, slot_of sls s sl -> c_tx (s_chan sl) = true ->
            exists id, s_id sl = Some id /\ In (id, s) a
}.

Definition Inv (st : mux) : Prop := Inv2 (active st) (slots st) /\ (length (active st) <= maxact st)%nat.

Lemma Inv2_init : Inv2 [] [].
Proof.
  constructor; cbn; try constructor; try tauto.
  - intros s sl id mk H. destruct s; discriminate.
  - intros s sl H. destruct s; discriminate.
Qed.

(* per-slot updates that keep the id, do not revive the sender and add no response *)
Definition slot_le (sl sl' : slot) : Prop :=
  s_id sl' = s_id sl /\
  (forall id mk, In (IOk id mk) (c_items (s_chan sl')) -> In (IOk id mk) (c_items (s_chan sl))).

Lemma Inv2_upd_keep a sls s f :
  Inv2 a sls ->
  (forall sl, slot_le sl (f sl) /\ c_tx (s_chan (f sl)) = c_tx (s_chan sl)) ->
  Inv2 a (upd s f sls).
Proof.
  intros [H1 H2 H3 H4 H5] Hf. constructor; auto.
  - intros id t Hin. destruct (H3 id t Hin) as (sl & Hs & Hid & Htx). unfold slot_of in *.
    destruct (Nat.eq_dec s t) as [->|Hne].
    + exists (f sl). rewrite nth_upd_same, Hs. destruct (Hf sl) as [[Hi _] Ht]. cbn. rewrite Hi, Ht. auto.
    + exists sl. rewrite nth_upd_other by exact Hne. auto.
  - intros t sl' id mk Hs Hin. unfold slot_of in *. apply nth_upd_inv in Hs.
    destruct Hs as (sl & Hs & [[-> ->]|[Hne ->]]).
    + destruct (Hf sl) as [[Hi Hit] _]. rewrite Hi. eapply H4; [exact Hs|]. apply Hit, Hin.
    + eapply H4; eauto.
  - intros t sl' Hs Htx. unfold slot_of in *. apply nth_upd_inv in Hs.
    destruct Hs as (sl & Hs & [[-> ->]|[Hne ->]]).
    + destruct (Hf sl) as [[Hi _] Ht]. rewrite Hi. rewrite Ht in Htx. eapply H5; eauto.
    + eapply H5; eauto.
Qed.

(* an entry leaves the map and its request is completed with an error *)
Lemma fail_slot_id e sl : s_id (fail_slot e sl) = s_id sl.
Proof. reflexivity. Qed.
Lemma fail_slot_tx e sl : c_tx (s_chan (fail_slot e sl)) = false.
Proof. reflexivity. Qed.
Lemma fail_slot_items e sl id mk :
  In (IOk id mk) (c_items (s_chan (fail_slot e sl))) -> In (IOk id mk) (c_items (s_chan sl)).
Proof.
  cbn. intros H. apply chan_send_in in H. destruct H as [H|H]; [exact H|discriminate].
Qed.

Lemma Inv2_remove l1 id s l2 sls e :
  Inv2 (l1 ++ (id, s) :: l2) sls -> Inv2 (l1 ++ l2) (upd s (fail_slot e) sls).
Proof.
  intros [H1 H2 H3 H4 H5].
  assert (Hns : ~ In s (map snd (l1 ++ l2))).
  { rewrite map_app in *. cbn [map snd] in H2. apply NoDup_remove_2 in H2. exact H2. }
  constructor.
  - rewrite map_app in *. cbn [map fst] in H1. eapply NoDup_remove_1, H1.
  - rewrite map_app in *. cbn [map snd] in H2. eapply NoDup_remove_1, H2.
  - intros id' t Hin.
    assert (Hne : s <> t). { intros ->. apply Hns. apply (in_map snd) in Hin. exact Hin. }
    destruct (H3 id' t) as (sl & Hs & Hid & Htx).
    { apply in_app_or in Hin. apply in_or_app. destruct Hin; [left|right; right]; assumption. }
    exists sl. unfold slot_of in *. rewrite nth_upd_other by exact Hne. auto.
  - intros t sl' id' mk Hs Hin. unfold slot_of in *. apply nth_upd_inv in Hs.
    destruct Hs as (sl & Hs & [[-> ->]|[Hne ->]]).
    + rewrite fail_slot_id. eapply H4; [exact Hs|]. eapply fail_slot_items, Hin.
    + eapply H4; eauto.
  - intros t sl' Hs Htx. unfold slot_of in *. apply nth_upd_inv in Hs.
    destruct Hs as (sl & Hs & [[-> ->]|[Hne ->]]).
    + rewrite fail_slot_tx in Htx. discriminate.
    + destruct (H5 t sl Hs Htx) as (id' & Hid & Hin). exists id'. split; [exact Hid|].
      apply in_app_or in Hin. apply in_or_app. destruct Hin as [Hin|[Hin|Hin]]; auto.
      inversion Hin; subst. congruence.
Qed.

Lemma drop_list_inv a : forall kept sls,
  Inv2 (rev kept ++ a) sls ->
  Inv2 (rev kept ++ fst (drop_list a sls)) (snd (drop_list a sls)) /\
  (length (fst (drop_list a sls)) <= length a)%nat.
Proof.
  induction a as [|[id s] a IH]; intros kept sls H; cbn [drop_list].
  - cbn. auto.
  - destruct (slot_reason sls s) as [e|].
    + destruct (IH kept (upd s (fail_slot e) sls)) as [IH1 IH2]; [eapply Inv2_remove, H|].
      split; [exact IH1|cbn [length]; lia].
    + destruct (IH ((id, s) :: kept) sls) as [IH1 IH2].
      { cbn [rev]. rewrite <- app_assoc. exact H. }
      destruct (drop_list a sls) as [a' sls'] eqn:E. cbn [fst snd length] in *.
      split; [|lia]. cbn [rev] in IH1. rewrite <- app_assoc in IH1. exact IH1.
Qed.

Lemma drop_cancelled_inv st : Inv st -> Inv (drop_cancelled st).
Proof.
  intros [H Hm]. unfold drop_cancelled. destruct (drop_list_inv (active st) [] (slots st) H) as [H1 H2].
  destruct (drop_list (active st) (slots st)) as [a sls]. cbn in *. split; cbn; [exact H1|lia].
Qed.

(* close_all *)
Lemma fold_fail_props e (a : list (N * nat)) : forall sls s sl',
  nth_error (fold_left (fun sls (p : N * nat) => upd (snd p) (fail_slot e) sls) a sls) s = Some sl' ->
  exists sl, nth_error sls s = Some sl /\ s_id sl' = s_id sl /\
    (c_tx (s_chan sl') = true -> c_tx (s_chan sl) = true /\ ~ In s (map snd a)) /\
    (forall id mk, In (IOk id mk) (c_items (s_chan sl')) -> In (IOk id mk) (c_items (s_chan sl))).
Proof.
  induction a as [|[id t] a IH]; intros sls s sl' H; cbn [fold_left snd] in H.
  - exists sl'. cbn. tauto.
  - destruct (IH _ _ _ H) as (sl1 & Hs1 & Hid & Htx & Hit). apply nth_upd_inv in Hs1.
    destruct Hs1 as (sl & Hs & [[-> ->]|[Hne ->]]).
    + exists sl. split; [exact Hs|]. split; [exact Hid|]. split.
      * intros Ht. destruct (Htx Ht) as [Hx _]. rewrite fail_slot_tx in Hx. discriminate.
      * intros i mk Hin. eapply fail_slot_items, Hit, Hin.
    + exists sl. split; [exact Hs|]. split; [exact Hid|]. split; [|exact Hit].
      intros Ht. destruct (Htx Ht) as [Hx Hn]. split; [exact Hx|]. cbn [map snd In]. intros [Hc|Hc]; auto.
Qed.

Lemma close_all_inv e st : Inv st -> Inv (close_all e st).
Proof.
  intros [[H1 H2 H3 H4 H5] Hm]. split; [|cbn; lia]. unfold close_all. cbn [active slots].
  constructor.
  - constructor.
  - constructor.
  - intros id s [].
  - intros s sl' id mk Hs Hin. destruct (fold_fail_props e _ _ _ _ Hs) as (sl & Hsl & Hid & _ & Hit).
    rewrite Hid. eapply H4; [exact Hsl|]. apply Hit, Hin.
  - intros s sl' Hs Htx. destruct (fold_fail_props e _ _ _ _ Hs) as (sl & Hsl & Hid & Ht & _).
    destruct (Ht Htx) as [Ht1 Hn]. destruct (H5 s sl Hsl Ht1) as (id & _ & Hin).
    exfalso. apply Hn. apply (in_map snd) in Hin. exact Hin.
Qed.

Lemma close_all_tx_dead e st s sl' :
  Inv st -> slot_of (slots (close_all e st)) s sl' -> c_tx (s_chan sl') = false.
Proof.
  intros Hi Hs. destruct (close_all_inv e st Hi) as [[_ _ _ _ H5] _].
  destruct (c_tx (s_chan sl')) eqn:E; [|reflexivity].
  destruct (H5 s sl' Hs E) as (id & _ & []).
Qed.

(* deliver *)
Lemma deliver_inv m st : Inv st -> Inv (deliver m st).
Proof.
  intros [H Hm]. destruct m as [|[|] id mk]; cbn [deliver]; try (split; assumption).
  destruct (lookup id (active st)) as [s|] eqn:El; [|split; assumption].
  split; [|exact Hm]. cbn [active slots].
  apply lookup_in in El. destruct H as [H1 H2 H3 H4 H5].
  destruct (H3 id s El) as (sl0 & Hs0 & Hid0 & Htx0).
  constructor; auto.
  - intros id' t Hin. destruct (H3 id' t Hin) as (sl & Hs & Hid & Htx). unfold slot_of in *.
    destruct (Nat.eq_dec s t) as [->|Hne].
    + exists (on_chan (chan_send (IOk id mk)) sl). rewrite nth_upd_same, Hs. cbn. rewrite chan_send_tx. auto.
    + exists sl. rewrite nth_upd_other by exact Hne. auto.
  - intros t sl' id' mk' Hs Hin. unfold slot_of in *. apply nth_upd_inv in Hs.
    destruct Hs as (sl & Hs & [[-> ->]|[Hne ->]]).
    + cbn in Hin |- *. apply chan_send_in in Hin. destruct Hin as [Hin|Hin].
      * eapply H4; eauto.
      * inversion Hin; subst. congruence.
    + eapply H4; eauto.
  - intros t sl' Hs Htx. unfold slot_of in *. apply nth_upd_inv in Hs.
    destruct Hs as (sl & Hs & [[-> ->]|[Hne ->]]).
    + cbn in Htx |- *. rewrite chan_send_tx in Htx. eapply H5; eauto.
    + eapply H5; eauto.
Qed.

Lemma set_inq_inv st q : Inv st -> Inv (set_inq st q).
Proof. intros H. exact H. Qed.

Lemma process_inv fuel : forall st, Inv st -> Inv (fst (process fuel st)).
Proof.
  induction fuel as [|f IH]; intros st H; cbn [process]; [exact H|].
  destruct (inq st) as [|[m| |] q]; cbn [fst]; auto.
  - apply IH. apply deliver_inv. exact H.
  - apply close_all_inv. exact H.
  - apply close_all_inv. exact H.
Qed.

Lemma poll_inv st : Inv st -> Inv (fst (poll st)).
Proof.
  intros H. unfold poll. pose proof (drop_cancelled_inv st H) as H1.
  destruct (shut (drop_cancelled st) && match active (drop_cancelled st) with [] => true | _ => false end);
    [exact H1|]. apply process_inv. exact H1.
Qed.

Lemma send_inv draws st : Inv st -> Inv (fst (send draws st)).
Proof.
  intros [H Hm]. unfold send.
  assert (Hadd : forall c, c_tx c = false -> (forall id mk, ~ In (IOk id mk) (c_items c)) ->
                 Inv (MX (active st) (slots st ++ [SL c None false]) (inq st) (shut st) (maxact st))).
  { intros c Hc Hit. split; [|exact Hm]. cbn [active slots]. destruct H as [H1 H2 H3 H4 H5]. constructor; auto.
    - intros id s Hin. destruct (H3 id s Hin) as (sl & Hs & Hr). exists sl. split; [|exact Hr].
      unfold slot_of in *. rewrite nth_error_app1; [exact Hs|]. apply nth_error_Some. congruence.
    - intros s sl id mk Hs Hin. unfold slot_of in *.
      destruct (Nat.lt_ge_cases s (length (slots st))) as [Hlt|Hge].
      + rewrite nth_error_app1 in Hs by exact Hlt. eapply H4; eauto.
      + rewrite nth_error_app2 in Hs by exact Hge. destruct (s - length (slots st))%nat as [|k]; cbn in Hs.
        * inversion Hs; subst. cbn in Hin. exfalso. eapply Hit, Hin.
        * destruct k; discriminate.
    - intros s sl Hs Htx. unfold slot_of in *.
      destruct (Nat.lt_ge_cases s (length (slots st))) as [Hlt|Hge].
      + rewrite nth_error_app1 in Hs by exact Hlt. eapply H5; eauto.
      + rewrite nth_error_app2 in Hs by exact Hge. destruct (s - length (slots st))%nat as [|k]; cbn in Hs.
        * inversion Hs; subst. cbn in Htx. congruence.
        * destruct k; discriminate. }
  destruct (shut st); cbn [fst].
  { apply Hadd; [reflexivity|]. intros id mk []. }
  destruct (maxact st <=? length (active st))%nat eqn:Emax; cbn [fst].
  { apply Hadd; [reflexivity|]. intros id mk [Hx|[]]. discriminate. }
  destruct (pick_id ID_DRAWS draws (active st)) as [id|] eqn:Ep; cbn [fst].
  2:{ apply Hadd; [reflexivity|]. intros id mk [Hx|[]]. discriminate. }
  apply pick_id_fresh in Ep. destruct Ep as [Ep _]. apply lookup_none in Ep.
  apply Nat.leb_gt in Emax.
  split; [|cbn [active maxact length]; lia]. cbn [active slots].
  destruct H as [H1 H2 H3 H4 H5].
  assert (Hfresh : ~ In (length (slots st)) (map snd (active st))).
  { intros Hin. apply in_map_iff in Hin. destruct Hin as ([i t] & Ht & Hin). cbn in Ht. subst t.
    destruct (H3 i _ Hin) as (sl & Hs & _). unfold slot_of in Hs.
    assert (length (slots st) < length (slots st))%nat by (apply nth_error_Some; congruence). lia. }
  constructor.
  - cbn [map fst]. constructor; assumption.
  - cbn [map snd]. constructor; assumption.
  - intros id' s [Hin|Hin].
    + inversion Hin; subst. exists (SL live_chan (Some id') false). unfold slot_of.
      rewrite nth_error_app2 by lia. rewrite Nat.sub_diag. cbn. auto.
    + destruct (H3 id' s Hin) as (sl & Hs & Hr). exists sl. split; [|exact Hr].
      unfold slot_of in *. rewrite nth_error_app1; [exact Hs|]. apply nth_error_Some. congruence.
  - intros s sl id' mk Hs Hin. unfold slot_of in *.
    destruct (Nat.lt_ge_cases s (length (slots st))) as [Hlt|Hge].
    + rewrite nth_error_app1 in Hs by exact Hlt. eapply H4; eauto.
    + rewrite nth_error_app2 in Hs by exact Hge. destruct (s - length (slots st))%nat as [|k]; cbn in Hs.
      * inversion Hs; subst. cbn in Hin. destruct Hin.
      * destruct k; discriminate.
  - intros s sl Hs Htx. unfold slot_of in *.
    destruct (Nat.lt_ge_cases s (length (slots st))) as [Hlt|Hge].
    + rewrite nth_error_app1 in Hs by exact Hlt. destruct (H5 s sl Hs Htx) as (i & Hi & Hin).
      exists i. split; [exact Hi|right; exact Hin].
    + rewrite nth_error_app2 in Hs by exact Hge. destruct (s - length (slots st))%nat as [|k] eqn:Ek; cbn in Hs.
      * inversion Hs; subst. exists id. split; [reflexivity|]. left. f_equal. lia.
      * destruct k; discriminate.
Qed.

Lemma take_inv s st : Inv st -> Inv (fst (take s st)).
Proof.
  intros [H Hm]. unfold take. destruct (nth_error (slots st) s) as [sl|]; [|split; assumption].
  destruct (negb (c_rx (s_chan sl))); [split; assumption|].
  destruct (c_items (s_chan sl)) as [|x rest] eqn:Ei; [split; assumption|].
  cbn [fst]. split; [|exact Hm]. cbn [active slots]. apply Inv2_upd_keep; [exact H|].
  intros sl0. split; [split|]; cbn; auto.
  intros id mk Hin. destruct (c_items (s_chan sl0)); [destruct Hin|right; exact Hin].
Qed.

Lemma step_inv st o : Inv st -> Inv (fst (step st o)).
Proof.
  intros H. destruct o as [draws|m| | | |s|s|s|]; cbn [step].
  - pose proof (send_inv draws st H) as H'. destruct (send draws st). exact H'.
  - exact H.
  - exact H.
  - exact H.
  - pose proof (poll_inv st H) as H'. destruct (poll st). exact H'.
  - destruct H as [H Hm]. split; [|exact Hm]. cbn [fst with_slots active slots].
    apply Inv2_upd_keep; [exact H|]. intros sl. split; [split|]; cbn; auto.
  - destruct H as [H Hm]. split; [|exact Hm]. cbn [fst with_slots active slots].
    apply Inv2_upd_keep; [exact H|]. intros sl. split; [split|]; cbn; auto. intros id mk [].
  - pose proof (take_inv s st H) as H'. destruct (take s st). exact H'.
  - exact H.
Qed.

Lemma run_inv ops : forall st, Inv st -> Inv (fst (run st ops)).
Proof.
  induction ops as [|o ops IH]; intros st H; cbn [run]; [exact H|].
  pose proof (step_inv st o H) as H1. destruct (step st o) as [st1 ob]. cbn [fst] in H1.
  pose proof (IH st1 H1) as H2. destruct (run st1 ops) as [st2 obs]. exact H2.
Qed.

Lemma init_inv maxact : Inv (mux_init maxact).
Proof. split; [exact Inv2_init|cbn; lia]. Qed.

Lemma reachable_inv maxact ops : Inv (fst (run (mux_init maxact) ops)).
Proof. apply run_inv, init_inv. Qed.

(* ---------- consequences on states satisfying the invariant ---------- *)

(* two different requests whose senders are alive never share an id *)
Lemma pending_ids_distinct st s1 s2 sl1 sl2 :
  Inv st -> slot_of (slots st) s1 sl1 -> slot_of (slots st) s2 sl2 ->
  c_tx (s_chan sl1) = true -> c_tx (s_chan sl2) = true -> s_id sl1 = s_id sl2 -> s1 = s2.
Proof.
  intros [[H1 H2 H3 H4 H5] _] Hs1 Hs2 Ht1 Ht2 Heq.
  destruct (H5 s1 sl1 Hs1 Ht1) as (i1 & Hi1 & Hin1). destruct (H5 s2 sl2 Hs2 Ht2) as (i2 & Hi2 & Hin2).
  assert (i1 = i2) by congruence. subst i2. eapply nodup_fst_unique; eauto.
Qed.

(* Take only ever yields a response carrying the id the slot was started with *)
Lemma take_routed st s id mk :
  Inv st -> snd (take s st) = TOk id mk ->
  exists sl, slot_of (slots st) s sl /\ s_id sl = Some id.
Proof.
  intros [[_ _ _ H4 _] _]. unfold take. destruct (nth_error (slots st) s) as [sl|] eqn:Es; [|discriminate].
  destruct (negb (c_rx (s_chan sl))); [discriminate|].
  destruct (c_items (s_chan sl)) as [|x rest] eqn:Ei; cbn [snd].
  - destruct (c_tx (s_chan sl)); discriminate.
  - destruct x as [i m|e]; [|destruct e; discriminate]. intros Hx; inversion Hx; subst.
    exists sl. split; [exact Es|]. eapply H4; [exact Es|]. rewrite Ei. left. reflexivity.
Qed.

(* a response whose id belongs to a pending request lands in that request's channel and
   nowhere else *)
Lemma deliver_routes st id mk s sl :
  Inv st -> slot_of (slots st) s sl -> s_id sl = Some id -> c_tx (s_chan sl) = true ->
  let st' := deliver (IMsg true id mk) st in
  active st' = active st /\
  (exists sl', slot_of (slots st') s sl' /\ s_id sl' = Some id /\
      c_items (s_chan sl') = if c_rx (s_chan sl) && negb (c_parked (s_chan sl))
                             then c_items (s_chan sl) ++ [IOk id mk] else c_items (s_chan sl)) /\
  (forall t, t <> s -> nth_error (slots st') t = nth_error (slots st) t).
Proof.
  intros [[H1 H2 H3 H4 H5] _] Hs Hid Htx. cbn zeta.
  destruct (H5 s sl Hs Htx) as (i & Hi & Hin). assert (i = id) by congruence. subst i.
  cbn [deliver]. rewrite (lookup_some_of_in id s (active st) H1 Hin). cbn [active slots].
  split; [reflexivity|]. split.
  - exists (on_chan (chan_send (IOk id mk)) sl). unfold slot_of in *. rewrite nth_upd_same, Hs.
    split; [reflexivity|]. split; [exact Hid|]. cbn. apply chan_send_items.
  - intros t Hne. apply nth_upd_other. auto.
Qed.

(* a response whose id belongs to no pending request changes nothing *)
Lemma deliver_unknown st id mk :
  Inv st ->
  (forall s sl, slot_of (slots st) s sl -> c_tx (s_chan sl) = true -> s_id sl <> Some id) ->
  deliver (IMsg true id mk) st = st.
Proof.
  intros [[H1 H2 H3 H4 H5] _] Hno. cbn [deliver].
  destruct (lookup id (active st)) as [s|] eqn:El; [|reflexivity].
  apply lookup_in in El. destruct (H3 id s El) as (sl & Hs & Hid & Htx). exfalso. eapply Hno; eauto.
Qed.

(* garbage and non-responses change nothing *)
Lemma deliver_undecodable st m :
  (m = IGarbage \/ exists id mk, m = IMsg false id mk) -> deliver m st = st.
Proof. intros [->|(id & mk & ->)]; reflexivity. Qed.

(* closing *)
Definition all_tx_dead (st : mux) : Prop :=
  forall s sl, slot_of (slots st) s sl -> c_tx (s_chan sl) = false.
Definition closed (st : mux) : Prop := shut st = true /\ active st = [] /\ all_tx_dead st.

Lemma fold_fail_effect e (a : list (N * nat)) : forall sls s,
  NoDup (map snd a) -> In s (map snd a) ->
  nth_error (fold_left (fun sls (p : N * nat) => upd (snd p) (fail_slot e) sls) a sls) s
  = option_map (fail_slot e) (nth_error sls s).
Proof.
  induction a as [|[id t] a IH]; intros sls s Hnd Hin; cbn [fold_left snd map In] in *; [destruct Hin|].
  inversion Hnd as [|? ? Hni Hnd']; subst. destruct Hin as [<-|Hin].
  - (* later updates do not touch slot t *)
    assert (Hk : forall (b : list (N * nat)) sls0, ~ In t (map snd b) ->
              nth_error (fold_left (fun sls (p : N * nat) => upd (snd p) (fail_slot e) sls) b sls0) t
              = nth_error sls0 t).
    { induction b as [|[i u] b IHb]; intros sls0 Hn; cbn [fold_left snd map In] in *; [reflexivity|].
      rewrite IHb by tauto. apply nth_upd_other. intros ->. apply Hn. left. reflexivity. }
    rewrite Hk by exact Hni. apply nth_upd_same.
  - rewrite IH by assumption. rewrite nth_upd_other; [reflexivity|]. intros ->. apply Hni, Hin.
Qed.

Lemma close_all_closed e st : Inv st -> closed (close_all e st).
Proof.
  intros H. split; [reflexivity|]. split; [reflexivity|]. intros s sl Hs. eapply close_all_tx_dead; eauto.
Qed.

(* every request that was pending gets the error (if its channel can take it) *)
Lemma close_all_fails_pending e st id s sl :
  Inv st -> In (id, s) (active st) -> slot_of (slots st) s sl ->
  slot_of (slots (close_all e st)) s (fail_slot e sl).
Proof.
  intros [[H1 H2 H3 H4 H5] _] Hin Hs. unfold slot_of, close_all in *. cbn [slots].
  rewrite fold_fail_effect; [now rewrite Hs|exact H2|]. apply (in_map snd) in Hin. exact Hin.
Qed.

Lemma drop_list_nil sls : drop_list [] sls = ([], sls).
Proof. reflexivity. Qed.

(* once closed, always closed, and no receiver ever waits again *)
Lemma closed_step st o : closed st -> closed (fst (step st o)).
Proof.
  intros (Hs & Ha & Hd). destruct o as [draws|m| | | |s|s|s|]; cbn [step].
  - unfold send. rewrite Hs. cbn [fst]. split; [reflexivity|]. split; [exact Ha|].
    intros t sl Ht. unfold slot_of in *. cbn [slots] in Ht.
    destruct (Nat.lt_ge_cases t (length (slots st))) as [Hlt|Hge].
    + rewrite nth_error_app1 in Ht by exact Hlt. eapply Hd, Ht.
    + rewrite nth_error_app2 in Ht by exact Hge. destruct (t - length (slots st))%nat as [|k]; cbn in Ht.
      * inversion Ht; reflexivity.
      * destruct k; discriminate.
  - split; [exact Hs|]. split; [exact Ha|exact Hd].
  - split; [exact Hs|]. split; [exact Ha|exact Hd].
  - split; [exact Hs|]. split; [exact Ha|exact Hd].
  - unfold poll, drop_cancelled. rewrite Ha. cbn [drop_list active shut]. rewrite Hs. cbn [andb fst].
    split; [reflexivity|]. split; [reflexivity|]. exact Hd.
  - cbn [fst]. split; [exact Hs|]. split; [exact Ha|]. intros t sl Ht. unfold slot_of in *.
    cbn [with_slots slots] in Ht. apply nth_upd_inv in Ht. destruct Ht as (sl0 & Ht & [[-> ->]|[_ ->]]); cbn; eapply Hd, Ht.
  - cbn [fst]. split; [exact Hs|]. split; [exact Ha|]. intros t sl Ht. unfold slot_of in *.
    cbn [with_slots slots] in Ht. apply nth_upd_inv in Ht. destruct Ht as (sl0 & Ht & [[-> ->]|[_ ->]]); cbn; eapply Hd, Ht.
  - unfold take. destruct (nth_error (slots st) s) as [sl|] eqn:Es; [|repeat split; assumption].
    destruct (negb (c_rx (s_chan sl))); [repeat split; assumption|].
    destruct (c_items (s_chan sl)); [repeat split; assumption|]. cbn [fst].
    split; [exact Hs|]. split; [exact Ha|]. intros t sl' Ht. unfold slot_of in *. cbn [slots] in Ht.
    apply nth_upd_inv in Ht. destruct Ht as (sl0 & Ht & [[-> ->]|[_ ->]]); cbn; eapply Hd, Ht.
  - split; [reflexivity|]. split; [exact Ha|exact Hd].
Qed.

Lemma closed_run ops : forall st, closed st -> closed (fst (run st ops)).
Proof.
  induction ops as [|o ops IH]; intros st H; cbn [run]; [exact H|].
  pose proof (closed_step st o H) as H1. destruct (step st o) as [st1 ob]. cbn [fst] in H1.
  pose proof (IH st1 H1) as H2. destruct (run st1 ops) as [st2 obs]. exact H2.
Qed.

Lemma closed_take_not_pending st s : closed st -> snd (take s st) <> TPending.
Proof.
  intros (_ & _ & Hd). unfold take. destruct (nth_error (slots st) s) as [sl|] eqn:Es; [|discriminate].
  destruct (negb (c_rx (s_chan sl))); [discriminate|].
  destruct (c_items (s_chan sl)) as [|x rest]; cbn [snd].
  - rewrite (Hd s sl Es). discriminate.
  - destruct x as [i m|e]; [discriminate|destruct e; discriminate].
Qed.

(* a poll that reaches Eof / Err closes *)
Lemma process_done fuel : forall st, Inv st -> snd (process fuel st) = PDone -> closed (fst (process fuel st)).
Proof.
  induction fuel as [|f IH]; intros st H; cbn [process]; [discriminate|].
  destruct (inq st) as [|[m| |] q] eqn:Eq; cbn [fst snd]; try discriminate.
  - apply IH. apply deliver_inv. exact H.
  - intros _. apply close_all_closed. exact H.
  - intros _. apply close_all_closed. exact H.
Qed.

(* ---------- traces: which id a slot has ---------- *)

Definition ids_of (st : mux) : list (option N) := map s_id (slots st).

Lemma map_upd_id (f : slot -> slot) s sls :
  (forall sl, s_id (f sl) = s_id sl) -> map s_id (upd s f sls) = map s_id sls.
Proof.
  intros Hf. revert s; induction sls as [|x l IH]; intros [|s]; cbn [upd map]; auto.
  - now rewrite Hf.
  - now rewrite IH.
Qed.

Lemma drop_list_ids a : forall sls, map s_id (snd (drop_list a sls)) = map s_id sls.
Proof.
  induction a as [|[id s] a IH]; intros sls; cbn [drop_list]; [reflexivity|].
  destruct (slot_reason sls s) as [e|].
  - rewrite IH. apply map_upd_id. reflexivity.
  - specialize (IH sls). destruct (drop_list a sls). exact IH.
Qed.

Lemma close_all_ids e st : ids_of (close_all e st) = ids_of st.
Proof.
  unfold ids_of, close_all. cbn [slots]. generalize (slots st). induction (active st) as [|[id s] a IH]; intros sls; cbn [fold_left snd]; [reflexivity|].
  rewrite IH. apply map_upd_id. reflexivity.
Qed.

Lemma deliver_ids m st : ids_of (deliver m st) = ids_of st.
Proof.
  destruct m as [|[|] id mk]; cbn [deliver]; try reflexivity.
  destruct (lookup id (active st)); [|reflexivity]. unfold ids_of. cbn [slots]. apply map_upd_id. reflexivity.
Qed.

Lemma process_ids fuel : forall st, ids_of (fst (process fuel st)) = ids_of st.
Proof.
  induction fuel as [|f IH]; intros st; cbn [process]; [reflexivity|].
  destruct (inq st) as [|[m| |] q]; cbn [fst]; try reflexivity.
  - rewrite IH, deliver_ids. reflexivity.
  - rewrite close_all_ids. reflexivity.
  - rewrite close_all_ids. reflexivity.
Qed.

Lemma poll_ids st : ids_of (fst (poll st)) = ids_of st.
Proof.
  unfold poll.
  assert (Hd : ids_of (drop_cancelled st) = ids_of st).
  { unfold ids_of, drop_cancelled. pose proof (drop_list_ids (active st) (slots st)) as H.
    destruct (drop_list (active st) (slots st)). exact H. }
  destruct (shut (drop_cancelled st) && _); cbn [fst]; [exact Hd|]. now rewrite process_ids.
Qed.

Lemma step_ids st o : ids_of (fst (step st o)) = ids_of st ++ new_ids o (snd (step st o)).
Proof.
  destruct o as [draws|m| | | |s|s|s|]; cbn [step].
  - unfold send. destruct (shut st); cbn [fst snd new_ids]; [unfold ids_of; cbn [slots]; now rewrite map_app|].
    destruct (maxact st <=? length (active st))%nat; cbn [fst snd new_ids]; [unfold ids_of; cbn [slots]; now rewrite map_app|].
    destruct (pick_id ID_DRAWS draws (active st)); cbn [fst snd new_ids]; unfold ids_of; cbn [slots]; now rewrite map_app.
  - cbn. now rewrite app_nil_r.
  - cbn. now rewrite app_nil_r.
  - cbn. now rewrite app_nil_r.
  - pose proof (poll_ids st) as H. destruct (poll st). cbn [fst snd new_ids] in *. now rewrite app_nil_r.
  - cbn [fst snd new_ids]. rewrite app_nil_r. unfold ids_of. cbn [with_slots slots]. apply map_upd_id. reflexivity.
  - cbn [fst snd new_ids]. rewrite app_nil_r. unfold ids_of. cbn [with_slots slots]. apply map_upd_id. reflexivity.
  - unfold take. destruct (nth_error (slots st) s) as [sl|]; cbn [fst snd new_ids]; [|now rewrite app_nil_r].
    destruct (negb (c_rx (s_chan sl))); cbn [fst snd new_ids]; [now rewrite app_nil_r|].
    destruct (c_items (s_chan sl)); cbn [fst snd new_ids]; rewrite app_nil_r; [reflexivity|].
    unfold ids_of. cbn [slots]. apply map_upd_id. reflexivity.
  - cbn. now rewrite app_nil_r.
Qed.

Lemma run_length ops : forall st, length (snd (run st ops)) = length ops.
Proof.
  induction ops as [|o ops IH]; intros st; cbn [run]; [reflexivity|].
  destruct (step st o) as [st1 ob]. specialize (IH st1). destruct (run st1 ops). cbn [snd length] in *. now rewrite IH.
Qed.

Lemma take_routed_trace ops : forall st j s id mk,
  Inv st -> nth_error ops j = Some (MTake s) ->
  nth_error (snd (run st ops)) j = Some (OTake (TOk id mk)) ->
  nth_error (ids_of st ++ started_ids ops (snd (run st ops))) s = Some (Some id).
Proof.
  induction ops as [|o ops IH]; intros st j s id mk Hinv Hop Hob; [destruct j; discriminate|].
  cbn [run] in *. pose proof (step_inv st o Hinv) as Hinv1. pose proof (step_ids st o) as Hids.
  destruct (step st o) as [st1 ob] eqn:Es. cbn [fst snd] in *.
  specialize (IH st1). destruct (run st1 ops) as [st2 obs] eqn:Er. cbn [snd started_ids] in *.
  destruct j as [|j]; cbn [nth_error] in Hop, Hob.
  - inversion Hop; subst o. inversion Hob; subst ob. cbn [step] in Es.
    destruct (take s st) as [st' r] eqn:Et. inversion Es; subst.
    destruct (take_routed st s id mk Hinv) as (sl & Hs & Hid); [rewrite Et; reflexivity|].
    rewrite nth_error_app1.
    + unfold ids_of. unfold slot_of in Hs. rewrite nth_error_map, Hs. cbn. now rewrite Hid.
    + unfold ids_of. rewrite map_length. apply nth_error_Some. unfold slot_of in Hs. congruence.
  - specialize (IH j s id mk Hinv1 Hop Hob). rewrite Hids, <- app_assoc in IH. exact IH.
Qed.

(* ---------- traces: responses are neither invented nor duplicated ---------- *)

Definition is_ok (id mk : N) (x : item) : bool :=
  match x with IOk i m => N.eqb i id && N.eqb m mk | _ => false end.
Definition is_in (id mk : N) (e : inev) : bool :=
  match e with InMsg (IMsg true i m) => N.eqb i id && N.eqb m mk | _ => false end.

Definition slot_cnt id mk (sl : slot) : nat := count (is_ok id mk) (c_items (s_chan sl)).
Fixpoint sum_slots (g : slot -> nat) (sls : list slot) : nat :=
  match sls with [] => O | sl :: l => (g sl + sum_slots g l)%nat end.
Definition phi id mk (st : mux) : nat :=
  (count (is_in id mk) (inq st) + sum_slots (slot_cnt id mk) (slots st))%nat.

Definition b2n (b : bool) : nat := if b then 1%nat else O.

Lemma count_cons {A} (f : A -> bool) x l : count f (x :: l) = (b2n (f x) + count f l)%nat.
Proof. unfold count. cbn [filter]. destruct (f x); reflexivity. Qed.
Lemma count_nil {A} (f : A -> bool) : count f [] = O.
Proof. reflexivity. Qed.

Lemma count_app {A} (f : A -> bool) a b : count f (a ++ b) = (count f a + count f b)%nat.
Proof. unfold count. now rewrite filter_app, app_length. Qed.

Lemma sum_upd_le g f s sls :
  (forall sl, (g (f sl) <= g sl)%nat) -> (sum_slots g (upd s f sls) <= sum_slots g sls)%nat.
Proof.
  intros Hf. revert s; induction sls as [|x l IH]; intros [|s]; cbn [upd sum_slots]; auto.
  - specialize (Hf x). lia.
  - specialize (IH s). lia.
Qed.

Lemma sum_upd_eq g f s sls :
  (forall sl, g (f sl) = g sl) -> sum_slots g (upd s f sls) = sum_slots g sls.
Proof.
  intros Hf. revert s; induction sls as [|x l IH]; intros [|s]; cbn [upd sum_slots]; auto.
Qed.

Lemma sum_upd_exact g f s sls sl :
  nth_error sls s = Some sl -> (sum_slots g (upd s f sls) + g sl = sum_slots g sls + g (f sl))%nat.
Proof.
  revert s; induction sls as [|x l IH]; intros [|s] H; cbn [upd sum_slots nth_error] in *; try discriminate.
  - inversion H; subst. lia.
  - specialize (IH s H). lia.
Qed.

Lemma sum_app g a b : sum_slots g (a ++ b) = (sum_slots g a + sum_slots g b)%nat.
Proof. induction a as [|x a IH]; cbn [app sum_slots]; [reflexivity|]. rewrite IH. lia. Qed.

Lemma fail_slot_cnt id mk e sl : slot_cnt id mk (fail_slot e sl) = slot_cnt id mk sl.
Proof.
  unfold slot_cnt. cbn [fail_slot on_chan s_chan chan_close_tx c_items]. rewrite chan_send_items.
  destruct (c_rx (s_chan sl) && negb (c_parked (s_chan sl))); [|reflexivity].
  rewrite count_app. unfold count at 2. cbn [filter is_ok length]. lia.
Qed.

Lemma drop_list_sum id mk a : forall sls,
  sum_slots (slot_cnt id mk) (snd (drop_list a sls)) = sum_slots (slot_cnt id mk) sls.
Proof.
  induction a as [|[i s] a IH]; intros sls; cbn [drop_list]; [reflexivity|].
  destruct (slot_reason sls s) as [e|].
  - rewrite IH. apply sum_upd_eq. intros sl. apply fail_slot_cnt.
  - specialize (IH sls). destruct (drop_list a sls). exact IH.
Qed.

Lemma drop_cancelled_phi id mk st : phi id mk (drop_cancelled st) = phi id mk st.
Proof.
  unfold phi, drop_cancelled. pose proof (drop_list_sum id mk (active st) (slots st)) as H.
  destruct (drop_list (active st) (slots st)). cbn [inq slots snd] in *. now rewrite H.
Qed.

Lemma close_all_phi id mk e st : phi id mk (close_all e st) = phi id mk st.
Proof.
  unfold phi, close_all. cbn [inq slots]. f_equal. generalize (slots st).
  induction (active st) as [|[i s] a IH]; intros sls; cbn [fold_left snd]; [reflexivity|].
  rewrite IH. apply sum_upd_eq. intros sl. apply fail_slot_cnt.
Qed.

Lemma upd_none {A} (f : A -> A) s l : nth_error l s = None -> upd s f l = l.
Proof.
  revert s; induction l as [|x l IH]; intros [|s] H; cbn [upd nth_error] in *; try discriminate; auto.
  f_equal. auto.
Qed.

Lemma deliver_phi id mk m st q :
  inq st = InMsg m :: q -> (phi id mk (deliver m (set_inq st q)) <= phi id mk st)%nat.
Proof.
  intros Hq. unfold phi at 2. rewrite Hq, count_cons.
  destruct m as [|[|] i k]; cbn [deliver is_in].
  - unfold phi. cbn [set_inq inq slots]. lia.
  - destruct (lookup i (active (set_inq st q))) as [s|].
    + unfold phi. cbn [inq slots set_inq].
      destruct (nth_error (slots st) s) as [sl|] eqn:Es.
      * pose proof (sum_upd_exact (slot_cnt id mk) (on_chan (chan_send (IOk i k))) s (slots st) sl Es) as H.
        assert (Hc : (slot_cnt id mk (on_chan (chan_send (IOk i k)) sl) <=
                      slot_cnt id mk sl + b2n (N.eqb i id && N.eqb k mk))%nat).
        { unfold slot_cnt. cbn [on_chan s_chan]. rewrite chan_send_items.
          destruct (c_rx (s_chan sl) && negb (c_parked (s_chan sl))); [|lia].
          rewrite count_app, count_cons, count_nil. cbn [is_ok]. lia. }
        lia.
      * rewrite upd_none by exact Es. lia.
    + unfold phi. cbn [inq slots set_inq]. lia.
  - unfold phi. cbn [set_inq inq slots]. lia.
Qed.

Lemma process_phi id mk fuel : forall st, (phi id mk (fst (process fuel st)) <= phi id mk st)%nat.
Proof.
  induction fuel as [|f IH]; intros st; cbn [process fst]; [lia|].
  destruct (inq st) as [|[m| |] q] eqn:Eq; cbn [fst]; try lia.
  - specialize (IH (deliver m (set_inq st q))). pose proof (deliver_phi id mk m st q Eq). lia.
  - rewrite close_all_phi. unfold phi. cbn [set_inq inq slots]. rewrite Eq, count_cons. lia.
  - rewrite close_all_phi. unfold phi. cbn [set_inq inq slots]. rewrite Eq, count_cons. lia.
Qed.

Lemma poll_phi id mk st : (phi id mk (fst (poll st)) <= phi id mk st)%nat.
Proof.
  unfold poll. pose proof (drop_cancelled_phi id mk st) as Hd.
  destruct (shut (drop_cancelled st) && _); cbn [fst]; [lia|].
  pose proof (process_phi id mk QOS (drop_cancelled st)). lia.
Qed.

Lemma step_phi id mk st o :
  (b2n (is_tok id mk (snd (step st o))) + phi id mk (fst (step st o)) <= phi id mk st + b2n (is_recv id mk o))%nat.
Proof.
  destruct o as [draws|m| | | |s|s|s|]; cbn [step].
  - unfold send. destruct (shut st); [|destruct (maxact st <=? length (active st))%nat; [|destruct (pick_id ID_DRAWS draws (active st))]];
      cbn [fst snd is_tok is_recv b2n]; unfold phi; cbn [inq slots]; rewrite sum_app; cbn [sum_slots]; unfold slot_cnt; cbn; lia.
  - cbn [fst snd is_tok b2n]. unfold phi. cbn [set_inq inq slots]. rewrite count_app, count_cons, count_nil.
    destruct m as [|[|] i k]; cbn [is_in is_recv b2n]; lia.
  - cbn [fst snd is_tok is_recv b2n]. unfold phi. cbn [set_inq inq slots]. rewrite count_app, count_cons, count_nil. cbn [is_in b2n]. lia.
  - cbn [fst snd is_tok is_recv b2n]. unfold phi. cbn [set_inq inq slots]. rewrite count_app, count_cons, count_nil. cbn [is_in b2n]. lia.
  - pose proof (poll_phi id mk st) as H. destruct (poll st). cbn [fst snd is_tok is_recv b2n] in *. lia.
  - cbn [fst snd is_tok is_recv b2n]. unfold phi. cbn [with_slots inq slots].
    rewrite sum_upd_eq; [lia|]. reflexivity.
  - cbn [fst snd is_tok is_recv b2n]. unfold phi. cbn [with_slots inq slots].
    pose proof (sum_upd_le (slot_cnt id mk) (on_chan (fun c => CH [] (c_parked c) (c_tx c) false)) s (slots st)) as H.
    assert (Hf : forall sl, (slot_cnt id mk (on_chan (fun c => CH [] (c_parked c) (c_tx c) false) sl) <= slot_cnt id mk sl)%nat)
      by (intros sl; unfold slot_cnt; cbn [on_chan s_chan c_items]; rewrite count_nil; lia).
    specialize (H Hf). lia.
  - unfold take. destruct (nth_error (slots st) s) as [sl|] eqn:Es; cbn [fst snd is_tok is_recv b2n]; [|lia].
    destruct (negb (c_rx (s_chan sl))); cbn [fst snd is_tok is_recv b2n]; [lia|].
    destruct (c_items (s_chan sl)) as [|x rest] eqn:Ei; cbn [fst snd].
    + destruct (c_tx (s_chan sl)); cbn; lia.
    + unfold phi. cbn [inq slots].
      pose proof (sum_upd_exact (slot_cnt id mk) (on_chan (fun c => CH (tl (c_items c)) false (c_tx c) (c_rx c))) s (slots st) sl Es) as H.
      assert (Hc : (slot_cnt id mk sl = b2n (is_ok id mk x) +
                    slot_cnt id mk (on_chan (fun c => CH (tl (c_items c)) false (c_tx c) (c_rx c)) sl))%nat).
      { unfold slot_cnt. cbn [on_chan s_chan c_items]. rewrite Ei, count_cons. cbn [tl]. lia. }
      assert (Ht : is_tok id mk (OTake match x with IOk i m => TOk i m | IErr NTimeout => TNone | IErr e => TErr e end) = is_ok id mk x).
      { destruct x as [i m|e]; [reflexivity|destruct e; reflexivity]. }
      rewrite Ht. cbn [is_recv b2n]. lia.
  - cbn [fst snd is_tok is_recv b2n]. unfold phi. cbn [inq slots]. lia.
Qed.

Lemma run_phi id mk ops : forall st,
  (count (is_tok id mk) (snd (run st ops)) + phi id mk (fst (run st ops)) <= phi id mk st + count (is_recv id mk) ops)%nat.
Proof.
  induction ops as [|o ops IH]; intros st; cbn [run]; [cbn; lia|].
  pose proof (step_phi id mk st o) as Hs. destruct (step st o) as [st1 ob]. cbn [fst snd] in Hs.
  specialize (IH st1). destruct (run st1 ops) as [st2 obs]. cbn [fst snd] in *.
  rewrite !count_cons. lia.
Qed.

Lemma run_firstn ops : forall st j, firstn j (snd (run st ops)) = snd (run st (firstn j ops)).
Proof.
  induction ops as [|o ops IH]; intros st j; cbn [run].
  - destruct j; reflexivity.
  - destruct j as [|j]; [destruct (step st o) as [st1 ob]; destruct (run st1 ops); reflexivity|].
    cbn [firstn run]. destruct (step st o) as [st1 ob]. specialize (IH st1 j).
    destruct (run st1 ops) as [st2 obs]. destruct (run st1 (firstn j ops)) as [st3 obs3]. cbn [snd firstn] in *. now rewrite IH.
Qed.

(* ---------- more consequences ---------- *)

Lemma drop_cancelled_maxact st : maxact (drop_cancelled st) = maxact st.
Proof. unfold drop_cancelled. destruct (drop_list (active st) (slots st)). reflexivity. Qed.
Lemma deliver_maxact m st : maxact (deliver m st) = maxact st.
Proof. destruct m as [|[|] i k]; cbn [deliver]; try reflexivity. destruct (lookup i (active st)); reflexivity. Qed.
Lemma process_maxact fuel : forall st, maxact (fst (process fuel st)) = maxact st.
Proof.
  induction fuel as [|f IH]; intros st; cbn [process]; [reflexivity|].
  destruct (inq st) as [|[m| |] q]; cbn [fst]; try reflexivity. now rewrite IH, deliver_maxact.
Qed.
Lemma poll_maxact st : maxact (fst (poll st)) = maxact st.
Proof.
  unfold poll. destruct (shut (drop_cancelled st) && _).
  - cbn [fst]. apply drop_cancelled_maxact.
  - rewrite process_maxact. apply drop_cancelled_maxact.
Qed.
Lemma step_maxact st o : maxact (fst (step st o)) = maxact st.
Proof.
  destruct o as [draws|m| | | |s|s|s|]; cbn [step]; try reflexivity.
  - assert (H : maxact (fst (send draws st)) = maxact st).
    { unfold send. destruct (shut st); [reflexivity|]. destruct (maxact st <=? length (active st))%nat; [reflexivity|].
      destruct (pick_id ID_DRAWS draws (active st)); reflexivity. }
    destruct (send draws st). exact H.
  - pose proof (poll_maxact st) as H. destruct (poll st). exact H.
  - assert (H : maxact (fst (take s st)) = maxact st).
    { unfold take. destruct (nth_error (slots st) s) as [sl|]; [|reflexivity].
      destruct (negb (c_rx (s_chan sl))); [reflexivity|]. destruct (c_items (s_chan sl)); reflexivity. }
    destruct (take s st). exact H.
Qed.
Lemma run_maxact ops : forall st, maxact (fst (run st ops)) = maxact st.
Proof.
  induction ops as [|o ops IH]; intros st; cbn [run]; [reflexivity|].
  pose proof (step_maxact st o) as H. destruct (step st o) as [st1 ob]. specialize (IH st1).
  destruct (run st1 ops). cbn [fst] in *. congruence.
Qed.

Lemma poll_done_closed st : Inv st -> snd (poll st) = PDone -> closed (fst (poll st)).
Proof.
  intros H. unfold poll. pose proof (drop_cancelled_inv st H) as H1.
  destruct (shut (drop_cancelled st)) eqn:Es; cbn [andb].
  - destruct (active (drop_cancelled st)) as [|p a] eqn:Ea; cbn [fst snd].
    + intros _. split; [exact Es|]. split; [exact Ea|]. intros s sl Hs.
      destruct (c_tx (s_chan sl)) eqn:Et; [|reflexivity].
      destruct H1 as [[_ _ _ _ H5] _]. destruct (H5 s sl Hs Et) as (id & _ & Hin). rewrite Ea in Hin. destruct Hin.
    + apply process_done. exact H1.
  - apply process_done. exact H1.
Qed.

Lemma closed_no_pending ops : forall st j s,
  closed st -> nth_error ops j = Some (MTake s) -> nth_error (snd (run st ops)) j <> Some (OTake TPending).
Proof.
  induction ops as [|o ops IH]; intros st j s Hc Hop; [destruct j; discriminate|].
  cbn [run]. pose proof (closed_step st o Hc) as Hc1.
  destruct (step st o) as [st1 ob] eqn:Es. cbn [fst] in Hc1. specialize (IH st1).
  destruct (run st1 ops) as [st2 obs]. cbn [snd] in *. destruct j as [|j]; cbn [nth_error] in *.
  - inversion Hop; subst o. cbn [step] in Es. pose proof (closed_take_not_pending st s Hc) as Hn.
    destruct (take s st) as [st' r]. inversion Es; subst. cbn [snd] in Hn. congruence.
  - eapply IH; eauto.
Qed.

(* ---------- timeouts and cancelled receivers ---------- *)

(* drop_cancelled leaves no timed-out or cancelled request in the map *)
Lemma drop_list_clean a : forall kept sls,
  Inv2 (rev kept ++ a) sls ->
  forall id s, In (id, s) (fst (drop_list a sls)) -> slot_reason (snd (drop_list a sls)) s = None.
Proof.
  induction a as [|[i t] a IH]; intros kept sls H id s Hin; cbn [drop_list] in *; [destruct Hin|].
  destruct (slot_reason sls t) as [e|] eqn:Er.
  - eapply IH; [eapply Inv2_remove, H|exact Hin].
  - pose proof (IH ((i, t) :: kept) sls) as IH'. cbn [rev] in IH'. rewrite <- app_assoc in IH'. specialize (IH' H).
    pose proof (drop_list_inv a ((i, t) :: kept) sls) as Hinv. cbn [rev] in Hinv. rewrite <- app_assoc in Hinv.
    destruct (Hinv H) as [Hinv' _]. clear Hinv.
    destruct (drop_list a sls) as [a' sls'] eqn:Ed. cbn [fst snd] in *.
    destruct Hin as [Hin|Hin]; [|eapply IH'; exact Hin].
    inversion Hin; subst i t. clear Hin.
    (* the head entry was kept: its slot is not touched by the rest *)
    assert (Hsame : nth_error sls' s = nth_error sls s).
    { assert (Hns : ~ In s (map snd a)).
      { destruct H as [_ H2 _ _ _]. rewrite map_app in H2. cbn [map snd] in H2. apply NoDup_remove_2 in H2.
        intros Hc. apply H2. apply in_or_app. right. exact Hc. }
      clear -Ed Hns. revert sls sls' a' Ed. induction a as [|[j u] a IHa]; intros sls sls' a' Ed; cbn [drop_list] in Ed.
      - inversion Ed; reflexivity.
      - cbn [map snd In] in Hns. destruct (slot_reason sls u) as [e|].
        + rewrite (IHa (fun Hc => Hns (or_intror Hc)) _ _ _ Ed). apply nth_upd_other. intros ->. apply Hns. left. reflexivity.
        + destruct (drop_list a sls) as [a2 sls2] eqn:E2. inversion Ed; subst.
          eapply (IHa (fun Hc => Hns (or_intror Hc))). exact E2. }
    unfold slot_reason in *. rewrite Hsame. exact Er.
Qed.

Lemma deliver_flags m st s :
  option_map (fun sl => (s_fired sl, c_rx (s_chan sl))) (nth_error (slots (deliver m st)) s)
  = option_map (fun sl => (s_fired sl, c_rx (s_chan sl))) (nth_error (slots st) s).
Proof.
  destruct m as [|[|] id mk]; cbn [deliver]; try reflexivity.
  destruct (lookup id (active st)) as [t|]; [|reflexivity]. cbn [slots].
  destruct (Nat.eq_dec t s) as [->|Hne].
  - rewrite nth_upd_same. destruct (nth_error (slots st) s) as [sl|]; [|reflexivity].
    cbn. now rewrite chan_send_rx.
  - now rewrite nth_upd_other.
Qed.

Lemma deliver_active m st : active (deliver m st) = active st.
Proof. destruct m as [|[|] id mk]; cbn [deliver]; try reflexivity. destruct (lookup id (active st)); reflexivity. Qed.

Definition clean (st : mux) : Prop :=
  forall id s, In (id, s) (active st) ->
  exists sl, nth_error (slots st) s = Some sl /\ s_fired sl = false /\ c_rx (s_chan sl) = true.

Lemma reason_none_flags sls s sl :
  nth_error sls s = Some sl -> slot_reason sls s = None -> s_fired sl = false /\ c_rx (s_chan sl) = true.
Proof.
  unfold slot_reason, cancel_reason. intros ->. destruct (s_fired sl); [discriminate|].
  destruct (c_rx (s_chan sl)); [auto|discriminate].
Qed.

Lemma drop_cancelled_clean st : Inv st -> clean (drop_cancelled st).
Proof.
  intros [H Hm] id s Hin. pose proof (drop_list_clean (active st) [] (slots st) H) as Hc.
  pose proof (drop_list_inv (active st) [] (slots st) H) as [Hi _].
  unfold drop_cancelled in *. destruct (drop_list (active st) (slots st)) as [a sls]. cbn [fst snd active slots app rev] in *.
  destruct Hi as [_ _ H3 _ _]. destruct (H3 id s Hin) as (sl & Hs & _). exists sl. split; [exact Hs|].
  eapply reason_none_flags; [exact Hs|]. eapply Hc, Hin.
Qed.

Lemma process_clean fuel : forall st, clean st -> clean (fst (process fuel st)).
Proof.
  induction fuel as [|f IH]; intros st Hc; cbn [process]; [exact Hc|].
  destruct (inq st) as [|[m| |] q]; cbn [fst]; try exact Hc.
  - apply IH. intros id s Hin. rewrite deliver_active in Hin. cbn [set_inq active] in Hin.
    destruct (Hc id s Hin) as (sl & Hs & Hf & Hr).
    pose proof (deliver_flags m (set_inq st q) s) as Hfl.
    replace (nth_error (slots (set_inq st q)) s) with (Some sl) in Hfl by (symmetry; exact Hs).
    destruct (nth_error (slots (deliver m (set_inq st q))) s) as [sl'|]; [|discriminate].
    cbn in Hfl. inversion Hfl. exists sl'. split; [reflexivity|]. rewrite Hf, Hr in *. auto.
  - intros id s [].
  - intros id s [].
Qed.

Lemma poll_clean st : Inv st -> clean (fst (poll st)).
Proof.
  intros H. unfold poll. pose proof (drop_cancelled_clean st H) as Hc.
  destruct (shut (drop_cancelled st) && _); cbn [fst]; [exact Hc|]. apply process_clean. exact Hc.
Qed.

Lemma dead_take_not_pending st s sl :
  nth_error (slots st) s = Some sl -> c_tx (s_chan sl) = false -> snd (take s st) <> TPending.
Proof.
  intros Hs Ht. unfold take. rewrite Hs. destruct (negb (c_rx (s_chan sl))); [discriminate|].
  destruct (c_items (s_chan sl)) as [|x rest]; cbn [snd].
  - rewrite Ht. discriminate.
  - destruct x as [i m|e]; [discriminate|destruct e; discriminate].
Qed.

Lemma poll_drops_cancelled st s sl :
  Inv st -> nth_error (slots (fst (poll st))) s = Some sl ->
  (s_fired sl = true \/ c_rx (s_chan sl) = false) ->
  c_tx (s_chan sl) = false /\ snd (take s (fst (poll st))) <> TPending.
Proof.
  intros Hi Hs Hflag. pose proof (poll_inv st Hi) as [[_ _ _ _ H5] _]. pose proof (poll_clean st Hi) as Hc.
  assert (Ht : c_tx (s_chan sl) = false).
  { destruct (c_tx (s_chan sl)) eqn:E; [|reflexivity]. exfalso.
    destruct (H5 s sl Hs E) as (id & _ & Hin). destruct (Hc id s Hin) as (sl' & Hs' & Hf & Hr).
    assert (sl' = sl) by congruence. subst sl'. destruct Hflag; congruence. }
  split; [exact Ht|]. eapply dead_take_not_pending; eauto.
Qed.
