(* C16 — executable models, no proofs.

   Part 1 (UDP): the receive loop of `UdpRequest::send`
   (crates/net/src/udp/udp_client_stream.rs:159-333) as a function of the list of
   results the socket produces for one transmission, and the `retry` driver around it
   (same file, 437-472).  The wire parser is NOT modelled: a datagram carries the
   parser's view of its payload ([body]); theorems quantify over all views.

   Part 2 (stream): `DnsMultiplexer` (crates/net/src/xfer/dns_multiplexer.rs) as a state
   machine over operations Send / Recv / Eof / Err / Poll / Timeout / Cancel / Take /
   Shutdown, with the per-request completion channels (futures mpsc, buffer 8) and
   `DnsResponseStream` (crates/net/src/xfer/mod.rs) on the consumer side. *)
From HV Require Import Lib.Base.
Open Scope N_scope.

(* ================================================================== *)
(* Part 1: UDP                                                         *)
(* ================================================================== *)

(* IpAddr: V4 = 32-bit, V6 = 128-bit number.  SocketAddrV6's flowinfo/scope_id are not
   looked at by the code (it compares ip() and port() only), so they are not here. *)
Inductive ip := V4 (a : N) | V6 (a : N).

Definition ip_eqb (x y : ip) : bool :=
  match x, y with
  | V4 a, V4 b => N.eqb a b
  | V6 a, V6 b => N.eqb a b
  | _, _ => false
  end.

(* IpAddr::to_canonical: ::ffff:a.b.c.d becomes a.b.c.d, everything else unchanged *)
Definition canon (i : ip) : ip :=
  match i with
  | V4 a => V4 a
  | V6 a => if N.eqb (a / 4294967296) 65535 then V4 (a mod 4294967296) else V6 a
  end.

Definition label := list byte.
Definition name := list label.     (* all names here come off the wire: fully qualified *)

(* u8::to_ascii_lowercase *)
Definition lower (b : N) : N := if (65 <=? b) && (b <=? 90) then b + 32 else b.

(* Name::cmp_with_f::<F>(..) == Equal: same number of labels, same lengths, bytes equal
   under F (CaseInsensitive = lower, CaseSensitive = identity) *)
Definition label_eqb (f : N -> N) (a b : label) : bool :=
  list_eqb (fun x y => N.eqb (f x) (f y)) a b.
Definition name_eqb (f : N -> N) (a b : name) : bool := list_eqb (label_eqb f) a b.
Definition name_eq_ci := name_eqb lower.                 (* PartialEq for Name *)
Definition name_eq_cs := name_eqb (fun x => x).          (* Name::eq_case *)

Record query := Q { qname : name; qtype : N; qclass : N }.

(* #[derive(PartialEq)] on Query: name (case-insensitive), type, class *)
Definition query_eqb (a b : query) : bool :=
  name_eq_ci (qname a) (qname b) && N.eqb (qtype a) (qtype b) && N.eqb (qclass a) (qclass b).

(* what Message::from_vec + the QR test of DnsResponse::from_buffer make of the payload *)
Inductive body := BGarbage | BMsg (resp : bool) (id : N) (qs : list query).

Record datagram := DG { d_ip : ip; d_port : N; d_body : body }.

Record request := RQ {
  r_ip : ip; r_port : N;          (* name_server *)
  r_id : N;                       (* request.id *)
  r_qs : list query;              (* the questions as sent (after any case randomisation) *)
  r_case : bool;                  (* options.case_randomization *)
  r_orig : option query           (* original_query *)
}.

Inductive err := EParse | ENotResponse | ECase | EIo | EMsg.
Inductive verdict := Skip | Fail (e : err) | Accept (qs : list query).

(* request_queries.contains(elem) *)
Definition asked_ci (rq : request) (e : query) : bool := existsb (fun r => query_eqb r e) (r_qs rq).
(* request_queries.iter().any(|r| r == elem && r.name.eq_case(&elem.name)) *)
Definition asked_cs (rq : request) (e : query) : bool :=
  existsb (fun r => query_eqb r e && name_eq_cs (qname r) (qname e)) (r_qs rq).

(* "overwrite the query with the original query if case randomization may have been used" *)
Definition restore (rq : request) (qs : list query) : list query :=
  if r_case rq then
    match r_orig rq with
    | Some o => map (fun q => if query_eqb q o then o else q) qs
    | None => qs
    end
  else qs.

(* one iteration of the `for _ in 0..3` body, after recv_from returned a datagram *)
Definition examine (rq : request) (d : datagram) : verdict :=
  if negb (ip_eqb (canon (d_ip d)) (canon (r_ip rq))) || negb (N.eqb (d_port d) (r_port rq))
  then Skip                                        (* "ignoring response from ..." continue *)
  else match d_body d with
  | BGarbage => Fail EParse                        (* DnsResponse::from_buffer(..)? *)
  | BMsg false _ _ => Fail ENotResponse            (* ProtoError::NotAResponse via `?` *)
  | BMsg true id qs =>
      if negb (N.eqb (r_id rq) id) then Skip       (* "expected message id" continue *)
      else
        let question_matches := forallb (asked_ci rq) qs in
        if r_case rq && question_matches && negb (forallb (asked_cs rq) qs)
        then Fail ECase                            (* return Err(QueryCaseMismatch) *)
        else if negb question_matches then Skip    (* "detected forged question section" *)
        else Accept (restore rq qs)
  end.

(* what the socket does on one recv_from *)
Inductive sockev := SDg (d : datagram) | SErr.

Inductive outcome :=
| Accepted (n : nat) (d : datagram) (qs : list query)  (* Ok: n datagrams skipped before d *)
| Failed (n : nat) (e : err)       (* Err after n datagrams skipped *)
| Exceeded                         (* "udp receive attempts exceeded" *)
| Waiting (n : nat).               (* recv_from pending for ever: only the timeout ends it *)

Fixpoint recv_loop (rq : request) (k : nat) (n : nat) (evs : list sockev) : outcome :=
  match k with
  | O => Exceeded
  | S k' =>
    match evs with
    | [] => Waiting n
    | SErr :: _ => Failed n EIo
    | SDg d :: evs' =>
        match examine rq d with
        | Skip => recv_loop rq k' (S n) evs'
        | Fail e => Failed n e
        | Accept qs => Accepted n d qs
        end
    end
  end.

Definition ATTEMPTS : nat := 3.
Definition udp_recv (rq : request) (evs : list sockev) : outcome := recv_loop rq ATTEMPTS O evs.

(* number of recv_from calls that returned (what the scripted socket counts) *)
Definition examined (o : outcome) : nat :=
  match o with
  | Accepted n _ _ => S n
  | Failed n _ => S n
  | Exceeded => ATTEMPTS
  | Waiting n => n
  end.

(* ---- specification side (independent formulation) ---- *)

Definition same_name_ci (a b : name) : Prop := map (map lower) a = map (map lower) b.

(* the question [e] of a response is one that was asked *)
Definition asked (rq : request) (e : query) : Prop :=
  exists r, In r (r_qs rq) /\ qtype r = qtype e /\ qclass r = qclass e /\
            if r_case rq then qname r = qname e else same_name_ci (qname r) (qname e).

Definition from_server (rq : request) (d : datagram) : Prop :=
  canon (d_ip d) = canon (r_ip rq) /\ d_port d = r_port rq.

(* the datagram is an acceptable reply to the request *)
Definition matching (rq : request) (d : datagram) : Prop :=
  from_server rq d /\
  exists qs, d_body d = BMsg true (r_id rq) qs /\ forall e, In e qs -> asked rq e.

(* datagrams that end the transmission with an error instead of being skipped: they all
   need the right source address and port *)
Definition fatal (rq : request) (d : datagram) : Prop :=
  from_server rq d /\
  match d_body d with
  | BGarbage => True
  | BMsg false _ _ => True
  | BMsg true id qs =>
      id = r_id rq /\ r_case rq = true /\
      (forall e, In e qs -> exists r, In r (r_qs rq) /\ qtype r = qtype e /\ qclass r = qclass e /\
                                       same_name_ci (qname r) (qname e)) /\
      ~ (forall e, In e qs -> asked rq e)
  end.

Definition skippable (rq : request) (ev : sockev) : Prop :=
  match ev with SDg d => ~ matching rq d /\ ~ fatal rq d | SErr => False end.

(* the error class of a fatal datagram *)
Definition fatal_class (d : datagram) : err :=
  match d_body d with
  | BGarbage => EParse
  | BMsg false _ _ => ENotResponse
  | BMsg true _ _ => ECase
  end.


(* independent description of all outcomes of one transmission *)
Inductive udp_spec (rq : request) : list sockev -> outcome -> Prop :=
| sp_accept pre d post qs :
    (length pre < ATTEMPTS)%nat -> Forall (skippable rq) pre -> matching rq d ->
    d_body d = BMsg true (r_id rq) qs ->
    udp_spec rq (pre ++ SDg d :: post) (Accepted (length pre) d (restore rq qs))
| sp_fatal pre d post :
    (length pre < ATTEMPTS)%nat -> Forall (skippable rq) pre -> fatal rq d ->
    udp_spec rq (pre ++ SDg d :: post) (Failed (length pre) (fatal_class d))
| sp_ioerr pre post :
    (length pre < ATTEMPTS)%nat -> Forall (skippable rq) pre ->
    udp_spec rq (pre ++ SErr :: post) (Failed (length pre) EIo)
| sp_exceeded pre post :
    length pre = ATTEMPTS -> Forall (skippable rq) pre ->
    udp_spec rq (pre ++ post) Exceeded
| sp_waiting pre :
    (length pre < ATTEMPTS)%nat -> Forall (skippable rq) pre ->
    udp_spec rq pre (Waiting (length pre)).


(* ================================================================== *)
(* Part 1b: the request as a whole — `retry` around `UdpRequest::send`, *)
(* inside `P::Timer::timeout` (udp_client_stream.rs:74-95, 437-472)     *)
(* ================================================================== *)

(* what happens before the receive loop of one transmission: bind a socket, send the query *)
Inductive setup := SetOk | SetBindErr | SetSendErr | SetSendShort.

(* one step of the environment; after each one the request future is polled until it is
   pending again (nothing else is ready) *)
Inductive uev :=
| URx (i : nat) (e : sockev)     (* the socket of transmission i returns e from recv_from *)
| UTick                          (* the retry timer fires *)
| UDeadline.                     (* the overall timeout fires *)

Record tx := TX { t_left : nat; t_seen : nat }.   (* loop iterations left, datagrams examined *)

Inductive rres :=
| RAccepted (i n : nat) (d : datagram) (qs : list query)
| RFailed (i n : nat) (e : err)
| RExceeded (i : nat)
| RTimedOut
| RWaiting.

Record rstate := RS { txs : list tx; armed : bool; setups : list setup }.

(* futures.push(request.send()) and its first poll: socket, send_to, then the loop waits *)
Definition start_tx (st : rstate) : rstate + rres :=
  let i := length (txs st) in
  match setups st with
  | SetBindErr :: _ => inr (RFailed i O EIo)
  | SetSendErr :: _ => inr (RFailed i O EIo)
  | SetSendShort :: _ => inr (RFailed i O EMsg)
  | SetOk :: rest => inl (RS (txs st ++ [TX ATTEMPTS O]) (armed st) rest)
  | [] => inl (RS (txs st ++ [TX ATTEMPTS O]) (armed st) [])
  end.

Fixpoint set_nth {A} (n : nat) (x : A) (l : list A) : list A :=
  match l, n with
  | [], _ => []
  | _ :: l', O => x :: l'
  | y :: l', S n' => y :: set_nth n' x l'
  end.

Definition rstep (rq : request) (max_tasks : nat) (st : rstate) (ev : uev) : rstate + rres :=
  match ev with
  | UDeadline => inr RTimedOut
  | UTick =>
      if armed st then
        if (length (txs st) <? max_tasks)%nat then start_tx st     (* tasks += 1; timer re-armed *)
        else inl (RS (txs st) false (setups st))                   (* the fused timer is spent *)
      else inl st
  | URx i e =>
      match nth_error (txs st) i with
      | None => inl st
      | Some t =>
          match e with
          | SErr => inr (RFailed i (t_seen t) EIo)
          | SDg d =>
              match examine rq d with
              | Accept qs => inr (RAccepted i (t_seen t) d qs)
              | Fail er => inr (RFailed i (t_seen t) er)
              | Skip =>
                  match t_left t with
                  | S (S k) => inl (RS (set_nth i (TX (S k) (S (t_seen t))) (txs st)) (armed st) (setups st))
                  | _ => inr (RExceeded i)        (* third skipped datagram: attempts exceeded *)
                  end
              end
          end
      end
  end.

Fixpoint rrun (rq : request) (max_tasks : nat) (st : rstate) (evs : list uev) : rres :=
  match evs with
  | [] => RWaiting
  | ev :: evs' =>
      match rstep rq max_tasks st ev with
      | inr r => r
      | inl st' => rrun rq max_tasks st' evs'
      end
  end.

(* send_message: the first transmission starts at once *)
Definition udp_request (rq : request) (max_tasks : nat) (sups : list setup) (evs : list uev) : rres :=
  match start_tx (RS [] true sups) with
  | inr r => r
  | inl st => rrun rq max_tasks st evs
  end.

(* the socket results seen by transmission i *)
Fixpoint proj (i : nat) (evs : list uev) : list sockev :=
  match evs with
  | [] => []
  | URx j e :: evs' => if Nat.eqb i j then e :: proj i evs' else proj i evs'
  | _ :: evs' => proj i evs'
  end.

(* ================================================================== *)
(* Part 2: DnsMultiplexer                                              *)
(* ================================================================== *)

Inductive nerr := NBusy | NIdExhausted | NTimeout | NCanceled | NClosedEof | NClosedErr.
Inductive item := IOk (id mk : N) | IErr (e : nerr).

(* futures mpsc channel(8) with its single Sender (inside ActiveRequest) and Receiver
   (inside DnsResponseStream) *)
Record chan := CH {
  c_items : list item;   (* queued, not yet taken *)
  c_parked : bool;       (* the sender is parked: try_send fails with Full *)
  c_tx : bool;           (* sender alive *)
  c_rx : bool            (* receiver alive *)
}.

Definition CHAN_BUFFER : nat := 8.    (* QUERY_RESPONSE_BUFFER_SIZE *)

(* ignore_send(completion.try_send(x)) *)
Definition chan_send (x : item) (c : chan) : chan :=
  if negb (c_rx c) then c                      (* disconnected *)
  else if c_parked c then c                    (* full: the message is dropped *)
  else let items' := c_items c ++ [x] in
       CH items' (CHAN_BUFFER <? length items')%nat (c_tx c) (c_rx c).

Definition chan_close_tx (c : chan) : chan := CH (c_items c) (c_parked c) false (c_rx c).

Record slot := SL { s_chan : chan; s_id : option N; s_fired : bool }.

(* what the underlying DnsClientStream yields *)
Inductive inmsg := IGarbage | IMsg (resp : bool) (id mk : N).
Inductive inev := InMsg (m : inmsg) | InEof | InErr.

Record mux := MX {
  active : list (N * nat);   (* active_requests: id -> slot of its ActiveRequest *)
  slots : list slot;         (* every send_message call so far, in order *)
  inq : list inev;           (* what the stream will yield on its next polls *)
  shut : bool;               (* is_shutdown *)
  maxact : nat               (* max_active_requests *)
}.

Definition mux_init (maxact : nat) : mux := MX [] [] [] false maxact.

Fixpoint upd {A} (n : nat) (f : A -> A) (l : list A) : list A :=
  match l, n with
  | [], _ => []
  | x :: l', O => f x :: l'
  | x :: l', S n' => x :: upd n' f l'
  end.

Definition on_chan (f : chan -> chan) (s : slot) : slot := SL (f (s_chan s)) (s_id s) (s_fired s).

Fixpoint lookup (id : N) (a : list (N * nat)) : option nat :=
  match a with
  | [] => None
  | (i, s) :: a' => if N.eqb i id then Some s else lookup id a'
  end.

(* next_random_query_id: up to 100 draws, the first one that is not an active id *)
Fixpoint pick_id (fuel : nat) (draws : list N) (a : list (N * nat)) : option N :=
  match fuel, draws with
  | S f, d :: ds => match lookup d a with None => Some d | Some _ => pick_id f ds a end
  | _, _ => None
  end.

Definition ID_DRAWS : nat := 100.
Definition live_chan : chan := CH [] false true true.
Definition failed_chan (e : nerr) : chan := CH [IErr e] false false true.  (* DnsResponseStream::Error *)
Definition dead_chan : chan := CH [] false false false.

Inductive sendres := SStarted (id : N) | SNotStarted | SPanic.

(* send_message *)
Definition send (draws : list N) (st : mux) : mux * sendres :=
  let s := length (slots st) in
  let add sl := MX (active st) (slots st ++ [sl]) (inq st) (shut st) (maxact st) in
  if shut st then (add (SL dead_chan None false), SPanic)
  else if (maxact st <=? length (active st))%nat then (add (SL (failed_chan NBusy) None false), SNotStarted)
  else match pick_id ID_DRAWS draws (active st) with
       | None => (add (SL (failed_chan NIdExhausted) None false), SNotStarted)
       | Some id =>
           (MX ((id, s) :: active st) (slots st ++ [SL live_chan (Some id) false])
               (inq st) (shut st) (maxact st), SStarted id)
       end.

(* drop_cancelled, one entry: returns the error to complete with, if the entry goes *)
Definition cancel_reason (sl : slot) : option nerr :=
  if s_fired sl then Some NTimeout
  else if negb (c_rx (s_chan sl)) then Some NCanceled
  else None.

(* complete_with_error, then the ActiveRequest (and its Sender) is dropped *)
Definition fail_slot (e : nerr) (sl : slot) : slot :=
  on_chan (fun c => chan_close_tx (chan_send (IErr e) c)) sl.

Definition slot_reason (sls : list slot) (s : nat) : option nerr :=
  match nth_error sls s with Some sl => cancel_reason sl | None => None end.

Fixpoint drop_list (a : list (N * nat)) (sls : list slot) : list (N * nat) * list slot :=
  match a with
  | [] => ([], sls)
  | (id, s) :: a' =>
      match slot_reason sls s with
      | Some e => drop_list a' (upd s (fail_slot e) sls)
      | None => let '(a'', sls') := drop_list a' sls in ((id, s) :: a'', sls')
      end
  end.

Definition drop_cancelled (st : mux) : mux :=
  let '(a, sls) := drop_list (active st) (slots st) in MX a sls (inq st) (shut st) (maxact st).

(* stream_closed_close_all *)
Definition close_all (e : nerr) (st : mux) : mux :=
  MX [] (fold_left (fun sls p => upd (snd p) (fail_slot e) sls) (active st) (slots st))
     (inq st) true (maxact st).

(* one message from the stream: decode, look the id up, try_send to its channel *)
Definition deliver (m : inmsg) (st : mux) : mux :=
  match m with
  | IGarbage => st                         (* "error decoding message" *)
  | IMsg false _ _ => st                   (* from_buffer: NotAResponse, same branch *)
  | IMsg true id mk =>
      match lookup id (active st) with
      | None => st                         (* "unexpected request_id" *)
      | Some s => MX (active st) (upd s (on_chan (chan_send (IOk id mk))) (slots st))
                     (inq st) (shut st) (maxact st)
      end
  end.

Definition set_inq (st : mux) (q : list inev) : mux := MX (active st) (slots st) q (shut st) (maxact st).

Inductive pollres := PPending | PDone.

Definition QOS : nat := 100.   (* QOS_MAX_RECEIVE_MSGS *)

Fixpoint process (fuel : nat) (st : mux) : mux * pollres :=
  match fuel with
  | O => (st, PPending)
  | S f =>
    match inq st with
    | [] => (st, PPending)
    | InMsg m :: q => process f (deliver m (set_inq st q))
    | InEof :: q => (close_all NClosedEof (set_inq st q), PDone)
    | InErr :: q => (close_all NClosedErr (set_inq st q), PDone)
    end
  end.

(* Stream::poll_next for DnsMultiplexer *)
Definition poll (st : mux) : mux * pollres :=
  let st1 := drop_cancelled st in
  if shut st1 && (match active st1 with [] => true | _ => false end) then (st1, PDone)
  else process QOS st1.

Inductive takeres :=
| TOk (id mk : N) | TErr (e : nerr) | TNone | TPending | TInvalid.

(* DnsResponseStream::poll_next on the Receiver / Error variants *)
Definition take (s : nat) (st : mux) : mux * takeres :=
  match nth_error (slots st) s with
  | None => (st, TInvalid)
  | Some sl =>
      let c := s_chan sl in
      if negb (c_rx c) then (st, TInvalid)
      else match c_items c with
      | x :: rest =>
          let st' := MX (active st) (upd s (on_chan (fun c => CH (tl (c_items c)) false (c_tx c) (c_rx c))) (slots st))
                        (inq st) (shut st) (maxact st) in
          (st', match x with
                | IOk id mk => TOk id mk
                | IErr NTimeout => TNone           (* Err(NetError::Timeout) => Ready(None) *)
                | IErr e => TErr e
                end)
      | [] => (st, if c_tx c then TPending else TNone)
      end
  end.

Inductive mop :=
| MSend (draws : list N)
| MRecv (m : inmsg) | MEof | MErr
| MPoll
| MTimeout (s : nat)
| MCancel (s : nat)
| MTake (s : nat)
| MShutdown.

Inductive obs := OSend (r : sendres) | OTake (r : takeres) | OPoll (r : pollres) | OUnit.

Definition with_slots (st : mux) (sls : list slot) : mux := MX (active st) sls (inq st) (shut st) (maxact st).

Definition step (st : mux) (o : mop) : mux * obs :=
  match o with
  | MSend draws => let '(st', r) := send draws st in (st', OSend r)
  | MRecv m => (set_inq st (inq st ++ [InMsg m]), OUnit)
  | MEof => (set_inq st (inq st ++ [InEof]), OUnit)
  | MErr => (set_inq st (inq st ++ [InErr]), OUnit)
  | MPoll => let '(st', r) := poll st in (st', OPoll r)
  | MTimeout s => (with_slots st (upd s (fun sl => SL (s_chan sl) (s_id sl) true) (slots st)), OUnit)
  | MCancel s => (with_slots st (upd s (on_chan (fun c => CH [] (c_parked c) (c_tx c) false)) (slots st)), OUnit)
  | MTake s => let '(st', r) := take s st in (st', OTake r)
  | MShutdown => (MX (active st) (slots st) (inq st) true (maxact st), OUnit)
  end.

Fixpoint run (st : mux) (ops : list mop) : mux * list obs :=
  match ops with
  | [] => (st, [])
  | o :: ops' => let '(st1, ob) := step st o in
                 let '(st2, obs) := run st1 ops' in (st2, ob :: obs)
  end.

Definition mux_run (maxact : nat) (ops : list mop) : list obs := snd (run (mux_init maxact) ops).

(* ---- specification side for traces ---- *)

(* the id given to each send_message call, in call order (None: not started) *)
Definition new_ids (o : mop) (ob : obs) : list (option N) :=
  match o, ob with
  | MSend _, OSend (SStarted id) => [Some id]
  | MSend _, _ => [None]
  | _, _ => []
  end.
Fixpoint started_ids (ops : list mop) (obs : list obs) : list (option N) :=
  match ops, obs with
  | o :: ops', ob :: obs' => new_ids o ob ++ started_ids ops' obs'
  | _, _ => []
  end.

Definition is_tok (id mk : N) (ob : obs) : bool :=
  match ob with OTake (TOk i m) => N.eqb i id && N.eqb m mk | _ => false end.
Definition is_recv (id mk : N) (o : mop) : bool :=
  match o with MRecv (IMsg true i m) => N.eqb i id && N.eqb m mk | _ => false end.
Definition count {A} (f : A -> bool) (l : list A) : nat := length (filter f l).
