(* C16 — correspondence glue: cases written by the Rust harness (inputs + what the real
   UdpClientStream / DnsMultiplexer did) are re-run on the models and compared. *)
From HV Require Import Lib.Base Lib.Pack C16.Model.
Open Scope N_scope.

(* compact transport forms *)
Inductive hquery := HQ (labels : list pbytes) (t c : N).
Definition query_of (h : hquery) : query :=
  match h with HQ ls t c => Q (map unpack ls) t c end.

Inductive hbody := HGarbage | HMsg (resp : bool) (id : N) (qs : list hquery).
Definition body_of (b : hbody) : body :=
  match b with HGarbage => BGarbage | HMsg r id qs => BMsg r id (map query_of qs) end.

Inductive hev := HDg (src : ip) (port : N) (b : hbody) | HErr.
Definition ev_of (e : hev) : sockev :=
  match e with HDg i p b => SDg (DG i p (body_of b)) | HErr => SErr end.

Inductive hreq := HRq (srv : ip) (port id : N) (qs : list hquery) (case_rand : bool) (orig : option hquery).
Definition req_of (r : hreq) : request :=
  match r with HRq i p id qs c o => RQ i p id (map query_of qs) c (option_map query_of o) end.

(* observation of one UDP request: tag 0 accepted, 1 parse error, 2 not a response,
   3 case mismatch, 4 io error, 5 message error (attempts exceeded), 6 timed out;
   pos = position of the accepted datagram in the script; examined = recv_from calls that
   returned; qs = question section of the returned response *)
Inductive uobs := UO (tag pos examined : N) (qs : list hquery).

Definition err_tag (e : err) : N :=
  match e with EParse => 1 | ENotResponse => 2 | ECase => 3 | EIo => 4 | EMsg => 5 end.

Definition query_exact_eqb (a b : query) : bool :=
  name_eq_cs (qname a) (qname b) && N.eqb (qtype a) (qtype b) && N.eqb (qclass a) (qclass b).

Definition udp_obs (o : outcome) : N * N * N * list query :=
  let ex := N.of_nat (examined o) in
  match o with
  | Accepted n _ qs => (0, N.of_nat n, ex, qs)
  | Failed _ e => (err_tag e, 0, ex, [])
  | Exceeded => (5, 0, ex, [])
  | Waiting _ => (6, 0, ex, [])
  end.

Definition enc_nerr (e : nerr) : N :=
  match e with NBusy => 1 | NIdExhausted => 2 | NTimeout => 3 | NCanceled => 4 | NClosedEof => 5 | NClosedErr => 6 end.

Definition enc_obs (o : obs) : list N :=
  match o with
  | OSend (SStarted id) => [1; id]
  | OSend SNotStarted => [2]
  | OSend SPanic => [3]
  | OTake (TOk id mk) => [4; id; mk]
  | OTake (TErr e) => [5; enc_nerr e]
  | OTake TNone => [6]
  | OTake TPending => [7]
  | OTake TInvalid => [8]
  | OPoll PPending => [9]
  | OPoll PDone => [10]
  | OUnit => [11]
  end.

(* whole request: script steps, observation (tag as above; i = transmission that ended the
   request, n = datagrams it had skipped, pos = number of script steps executed when the
   request completed, or one more than the script length if it only timed out afterwards) *)
Inductive huev := HRx (i : nat) (e : hev) | HTick | HDeadline.
Definition uev_of (e : huev) : uev :=
  match e with HRx i e => URx i (ev_of e) | HTick => UTick | HDeadline => UDeadline end.
Inductive robs := RO (tag i n pos : N) (qs : list hquery).

Definition rres_obs (r : rres) : N * N * N * list query :=
  match r with
  | RAccepted i n _ qs => (0, N.of_nat i, N.of_nat n, qs)
  | RFailed i n e => (err_tag e, N.of_nat i, N.of_nat n, [])
  | RExceeded i => (5, N.of_nat i, 0, [])
  | RTimedOut => (6, 0, 0, [])
  | RWaiting => (6, 0, 0, [])
  end.

Fixpoint rpos (rq : request) (mx : nat) (sups : list setup) (evs : list uev) (fuel j : nat) : nat :=
  match fuel with
  | O => S (length evs)
  | S f =>
      match udp_request rq mx sups (firstn j evs) with
      | RWaiting => if (length evs <=? j)%nat then S (length evs) else rpos rq mx sups evs f (S j)
      | _ => j
      end
  end.

Inductive case :=
| CReq (rq : hreq) (mx : nat) (sups : list setup) (evs : list huev) (o : robs)
| CUdp (rq : hreq) (evs : list hev) (o : uobs)
| CMux (maxact : nat) (ops : list mop) (os : list obs).

Definition check (c : case) : bool :=
  match c with
  | CReq rq mx sups evs (RO tag i n pos qs) =>
      let evs' := map uev_of evs in
      let '(t, i', n', q) := rres_obs (udp_request (req_of rq) mx sups evs') in
      N.eqb t tag && N.eqb i' i && N.eqb n' n &&
      N.eqb (N.of_nat (rpos (req_of rq) mx sups evs' (S (S (length evs'))) O)) pos &&
      list_eqb query_exact_eqb q (map query_of qs)
  | CUdp rq evs (UO tag pos ex qs) =>
      let '(t, p, e, q) := udp_obs (udp_recv (req_of rq) (map ev_of evs)) in
      N.eqb t tag && N.eqb p pos && N.eqb e ex && list_eqb query_exact_eqb q (map query_of qs)
  | CMux maxact ops os =>
      list_eqb (list_eqb N.eqb) (map enc_obs (mux_run maxact ops)) (map enc_obs os)
  end.

Definition bad (cs : list case) : list N := bad_idx check 0 cs.

(* full model output for one case (used in replay files) *)
Definition show (c : case) :=
  match c with
  | CReq rq mx sups evs _ =>
      let evs' := map uev_of evs in
      let '(t, i', n', q) := rres_obs (udp_request (req_of rq) mx sups evs') in
      ((t, i', n', q), [[N.of_nat (rpos (req_of rq) mx sups evs' (S (S (length evs'))) O)]])
  | CUdp rq evs _ => (udp_obs (udp_recv (req_of rq) (map ev_of evs)), @nil (list N))
  | CMux maxact ops _ => ((0, 0, 0, []), map enc_obs (mux_run maxact ops))
  end.
