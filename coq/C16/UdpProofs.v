(* C16 — proofs about the UDP receive loop model. *)
From HV Require Import Lib.Base C16.Model.
Open Scope N_scope.

(* ---------- reflection of the executable tests ---------- *)

Lemma ip_eqb_eq x y : ip_eqb x y = true <-> x = y.
Proof.
  destruct x as [a|a], y as [b|b]; cbn [ip_eqb]; rewrite ?N.eqb_eq;
    split; intros H; try discriminate; try (inversion H; subst; reflexivity); subst; reflexivity.
Qed.

Lemma list_eqb_rel {A B} (eqb : A -> A -> bool) (g : A -> B) :
  (forall x y, eqb x y = true <-> g x = g y) ->
  forall a b, list_eqb eqb a b = true <-> map g a = map g b.
Proof.
  intros H a; induction a as [|x a IH]; intros [|y b]; cbn [list_eqb map]; try (split; congruence).
  rewrite andb_true_iff, H, IH. split; [intros [-> ->]; reflexivity|intros E; inversion E; auto].
Qed.

Lemma label_eqb_spec f a b : label_eqb f a b = true <-> map f a = map f b.
Proof. apply list_eqb_rel. intros; apply N.eqb_eq. Qed.

Lemma name_eqb_spec f a b : name_eqb f a b = true <-> map (map f) a = map (map f) b.
Proof. apply list_eqb_rel. intros; apply label_eqb_spec. Qed.

Lemma name_eq_ci_spec a b : name_eq_ci a b = true <-> same_name_ci a b.
Proof. apply name_eqb_spec. Qed.

Lemma map_map_id (a : name) : map (map (fun x : N => x)) a = a.
Proof. induction a as [|l a IH]; cbn [map]; [reflexivity|]. now rewrite map_id, IH. Qed.

Lemma name_eq_cs_spec a b : name_eq_cs a b = true <-> a = b.
Proof. unfold name_eq_cs. rewrite name_eqb_spec, !map_map_id. reflexivity. Qed.

Lemma same_name_ci_refl a : same_name_ci a a.
Proof. reflexivity. Qed.

Lemma query_eqb_spec a b :
  query_eqb a b = true <-> same_name_ci (qname a) (qname b) /\ qtype a = qtype b /\ qclass a = qclass b.
Proof.
  unfold query_eqb. rewrite !andb_true_iff, name_eq_ci_spec, !N.eqb_eq. tauto.
Qed.

(* a question section entry is "asked" in the case-insensitive sense *)
Definition asked_loose (rq : request) (e : query) : Prop :=
  exists r, In r (r_qs rq) /\ qtype r = qtype e /\ qclass r = qclass e /\ same_name_ci (qname r) (qname e).
Definition asked_exact (rq : request) (e : query) : Prop :=
  exists r, In r (r_qs rq) /\ qtype r = qtype e /\ qclass r = qclass e /\ qname r = qname e.

Lemma asked_ci_spec rq e : asked_ci rq e = true <-> asked_loose rq e.
Proof.
  unfold asked_ci, asked_loose. rewrite existsb_exists. split.
  - intros (r & Hin & H). apply query_eqb_spec in H. exists r. tauto.
  - intros (r & Hin & H1 & H2 & H3). exists r. split; [exact Hin|]. apply query_eqb_spec. tauto.
Qed.

Lemma asked_cs_spec rq e : asked_cs rq e = true <-> asked_exact rq e.
Proof.
  unfold asked_cs, asked_exact. rewrite existsb_exists. split.
  - intros (r & Hin & H). apply andb_true_iff in H. destruct H as [H1 H2].
    apply query_eqb_spec in H1. apply name_eq_cs_spec in H2. exists r. tauto.
  - intros (r & Hin & H1 & H2 & H3). exists r. split; [exact Hin|]. apply andb_true_iff. split.
    + apply query_eqb_spec. rewrite H3. repeat split; auto.
    + now apply name_eq_cs_spec.
Qed.

Lemma asked_exact_loose rq e : asked_exact rq e -> asked_loose rq e.
Proof. intros (r & H0 & H1 & H2 & H3). exists r. rewrite H3. repeat split; auto. Qed.

Lemma asked_unfold rq e :
  asked rq e <-> if r_case rq then asked_exact rq e else asked_loose rq e.
Proof.
  unfold asked, asked_exact, asked_loose. destruct (r_case rq); reflexivity.
Qed.

Lemma forallb_spec {A} (f : A -> bool) (P : A -> Prop) l :
  (forall x, f x = true <-> P x) -> forallb f l = true <-> (forall x, In x l -> P x).
Proof. intros H. rewrite forallb_forall. split; intros G x Hx; apply H, G, Hx. Qed.

Lemma from_server_spec rq d :
  (negb (ip_eqb (canon (d_ip d)) (canon (r_ip rq))) || negb (N.eqb (d_port d) (r_port rq))) = false
  <-> from_server rq d.
Proof.
  unfold from_server. rewrite orb_false_iff, !negb_false_iff, ip_eqb_eq, N.eqb_eq. reflexivity.
Qed.

(* ---------- what [examine] decides ---------- *)

Lemma examine_accept rq d qs' :
  examine rq d = Accept qs' <->
  matching rq d /\ exists qs, d_body d = BMsg true (r_id rq) qs /\ qs' = restore rq qs.
Proof.
  unfold examine, matching.
  destruct (negb (ip_eqb (canon (d_ip d)) (canon (r_ip rq))) || negb (N.eqb (d_port d) (r_port rq))) eqn:Hsrc.
  - split; [discriminate|]. intros [[Hs _] _]. apply from_server_spec in Hs. congruence.
  - apply from_server_spec in Hsrc.
    destruct (d_body d) as [|resp id qs] eqn:Hb.
    + split; [discriminate|]. intros [[_ (q & Hq & _)] _]. discriminate.
    + destruct resp.
      2:{ split; [discriminate|]. intros [[_ (q & Hq & _)] _]. discriminate. }
      destruct (N.eqb (r_id rq) id) eqn:Hid; cbn [negb].
      2:{ split; [discriminate|]. intros [[_ (q & Hq & _)] _]. inversion Hq; subst.
          rewrite N.eqb_refl in Hid. discriminate. }
      apply N.eqb_eq in Hid. subst id.
      pose proof (forallb_spec (asked_ci rq) (asked_loose rq) qs (asked_ci_spec rq)) as Hci.
      pose proof (forallb_spec (asked_cs rq) (asked_exact rq) qs (asked_cs_spec rq)) as Hcs.
      destruct (forallb (asked_ci rq) qs) eqn:Eci; destruct (r_case rq) eqn:Ecase;
        destruct (forallb (asked_cs rq) qs) eqn:Ecs; cbn [andb negb];
        (split;
         [ intros H; inversion H; subst; clear H
         | intros [[_ (q & Hq & Hall)] (q2 & Hq2 & ->)]; inversion Hq; inversion Hq2; subst q q2 ]);
        try discriminate; try reflexivity.
      all: try (split; [split; [exact Hsrc|]; eexists; split; [reflexivity|]
                       | eexists; split; reflexivity]).
      all: try (intros e He; apply asked_unfold; rewrite Ecase).
      all: try (apply (proj1 Hcs eq_refl), He).
      all: try (apply (proj1 Hci eq_refl), He).
      (* remaining: contradictions between the spec and a failed executable test *)
      all: exfalso.
      all: try (assert (Hx : forall e, In e qs -> asked_exact rq e)
                  by (intros e He; specialize (Hall e He); apply asked_unfold in Hall;
                      rewrite Ecase in Hall; exact Hall);
                apply Hcs in Hx; congruence).
      all: try (assert (Hx : forall e, In e qs -> asked_loose rq e)
                  by (intros e He; specialize (Hall e He); apply asked_unfold in Hall;
                      rewrite Ecase in Hall; first [exact Hall | apply asked_exact_loose, Hall]);
                apply Hci in Hx; congruence).
Qed.

Lemma all_asked_exact rq qs :
  r_case rq = true -> (forall e, In e qs -> asked rq e) <-> (forall e, In e qs -> asked_exact rq e).
Proof.
  intros Hc. split; intros H e He; specialize (H e He); apply asked_unfold in H || apply asked_unfold;
    rewrite Hc in *; exact H.
Qed.

Lemma all_asked_loose rq qs :
  r_case rq = false -> (forall e, In e qs -> asked rq e) <-> (forall e, In e qs -> asked_loose rq e).
Proof.
  intros Hc. split; intros H e He; specialize (H e He); apply asked_unfold in H || apply asked_unfold;
    rewrite Hc in *; exact H.
Qed.

Lemma examine_fail rq d e :
  examine rq d = Fail e <-> fatal rq d /\ e = fatal_class d.
Proof.
  unfold examine, fatal, fatal_class.
  destruct (negb (ip_eqb (canon (d_ip d)) (canon (r_ip rq))) || negb (N.eqb (d_port d) (r_port rq))) eqn:Hsrc.
  - split; [discriminate|]. intros [[Hs _] _]. apply from_server_spec in Hs. congruence.
  - apply from_server_spec in Hsrc.
    destruct (d_body d) as [|resp id qs] eqn:Hb.
    + split; [intros H; inversion H; auto|intros [_ ->]; reflexivity].
    + destruct resp.
      2:{ split; [intros H; inversion H; auto|intros [_ ->]; reflexivity]. }
      destruct (N.eqb (r_id rq) id) eqn:Hid; cbn [negb].
      2:{ split; [discriminate|]. intros [[_ (Hi & _)] _]. subst id. rewrite N.eqb_refl in Hid. discriminate. }
      apply N.eqb_eq in Hid. subst id.
      pose proof (forallb_spec (asked_ci rq) (asked_loose rq) qs (asked_ci_spec rq)) as Hci.
      pose proof (forallb_spec (asked_cs rq) (asked_exact rq) qs (asked_cs_spec rq)) as Hcs.
      destruct (r_case rq) eqn:Ecase.
      * destruct (forallb (asked_ci rq) qs) eqn:Eci; destruct (forallb (asked_cs rq) qs) eqn:Ecs; cbn [andb negb].
        -- split; [discriminate|]. intros [[_ (_ & _ & _ & Hn)] _]. exfalso. apply Hn.
           apply (all_asked_exact rq qs Ecase). apply Hcs. reflexivity.
        -- split; [intros H; inversion H; subst; clear H|intros [_ ->]; reflexivity].
           split; [|reflexivity]. split; [exact Hsrc|]. repeat split.
           ++ intros e0 He0. destruct (proj1 Hci eq_refl e0 He0) as (r & H1 & H2 & H3 & H4). exists r. tauto.
           ++ intros Hall. pose proof (proj1 (all_asked_exact rq qs Ecase) Hall) as Hall'. apply Hcs in Hall'. congruence.
        -- split; [discriminate|]. intros [[_ (_ & _ & Hl & _)] _]. exfalso.
           assert (Hx : forall e, In e qs -> asked_loose rq e).
           { intros e0 He0. destruct (Hl e0 He0) as (r & H1 & H2 & H3 & H4). exists r. tauto. }
           apply Hci in Hx. congruence.
        -- split; [discriminate|]. intros [[_ (_ & _ & Hl & _)] _]. exfalso.
           assert (Hx : forall e, In e qs -> asked_loose rq e).
           { intros e0 He0. destruct (Hl e0 He0) as (r & H1 & H2 & H3 & H4). exists r. tauto. }
           apply Hci in Hx. congruence.
      * cbn [andb]. destruct (forallb (asked_ci rq) qs); cbn [negb];
          (split; [discriminate|]; intros [[_ (_ & Hc & _)] _]; discriminate).
Qed.

Lemma matching_not_fatal rq d : matching rq d -> fatal rq d -> False.
Proof.
  intros [_ (qs & Hb & Hall)] [_ Hf]. rewrite Hb in Hf. destruct Hf as (_ & _ & _ & Hn). auto.
Qed.

Lemma examine_skip rq d :
  examine rq d = Skip <-> ~ matching rq d /\ ~ fatal rq d.
Proof.
  split.
  - intros H. split.
    + intros Hm.
      assert (Hx : exists qs', examine rq d = Accept qs').
      { destruct Hm as [Hs (q & Hq & Hall)]. exists (restore rq q). apply examine_accept.
        split; [split; [exact Hs|exists q; split; [exact Hq|exact Hall]]|].
        exists q. split; [exact Hq|reflexivity]. }
      destruct Hx as (qs' & Hx). congruence.
    + intros Hf. assert (Hx : examine rq d = Fail (fatal_class d)) by (apply examine_fail; auto). congruence.
  - intros [Hnm Hnf]. destruct (examine rq d) as [|e|qs'] eqn:E; [reflexivity| |].
    + exfalso. apply Hnf. apply examine_fail in E. tauto.
    + exfalso. apply Hnm. apply examine_accept in E. tauto.
Qed.

(* ---------- the loop ---------- *)

(* shift the counter *)
Definition shift (k : nat) (o : outcome) : outcome :=
  match o with
  | Accepted n d qs => Accepted (k + n) d qs
  | Failed n e => Failed (k + n) e
  | Exceeded => Exceeded
  | Waiting n => Waiting (k + n)
  end.

Lemma recv_loop_shift rq k n evs : recv_loop rq k n evs = shift n (recv_loop rq k O evs).
Proof.
  revert n evs. induction k as [|k IH]; intros n evs; cbn [recv_loop shift]; [reflexivity|].
  destruct evs as [|[d|] evs]; cbn [shift]; rewrite ?Nat.add_0_r; try reflexivity.
  destruct (examine rq d); cbn [shift]; rewrite ?Nat.add_0_r; try reflexivity.
  rewrite (IH (S n)), (IH 1%nat). destruct (recv_loop rq k 0 evs) as [n0 ? ?|n0 ?| |n0]; cbn [shift];
    try (replace (S n + n0)%nat with (n + (1 + n0))%nat by lia); reflexivity.
Qed.

Lemma recv_loop_skip_prefix rq pre : forall k rest,
  Forall (skippable rq) pre -> (length pre <= k)%nat ->
  recv_loop rq k O (pre ++ rest) = shift (length pre) (recv_loop rq (k - length pre) O rest).
Proof.
  induction pre as [|ev pre IH]; intros k rest Hf Hl; cbn [app length].
  - rewrite Nat.sub_0_r. destruct (recv_loop rq k 0 rest); reflexivity.
  - inversion Hf as [|? ? Hev Hf']; subst. destruct k as [|k]; [cbn in Hl; lia|].
    cbn [recv_loop]. destruct ev as [d|]; [|destruct Hev].
    destruct Hev as [Hnm Hnf]. rewrite (proj2 (examine_skip rq d) (conj Hnm Hnf)).
    rewrite recv_loop_shift. rewrite IH by (auto; cbn in Hl; lia).
    cbn [length Nat.sub]. destruct (recv_loop rq (k - length pre) 0 rest) as [n0 ? ?|n0 ?| |n0]; cbn [shift];
      try (replace (1 + (length pre + n0))%nat with (S (length pre) + n0)%nat by lia); reflexivity.
Qed.

Lemma udp_spec_sound rq evs o : udp_spec rq evs o -> udp_recv rq evs = o.
Proof.
  unfold udp_recv. intros H. destruct H as [pre d post qs Hl Hf Hm Hb|pre d post Hl Hf Hd|pre post Hl Hf|pre post Hl Hf|pre Hl Hf].
  - rewrite recv_loop_skip_prefix by (auto; lia).
    destruct (ATTEMPTS - length pre)%nat as [|k] eqn:Ek; [lia|]. cbn [recv_loop].
    assert (Hx : examine rq d = Accept (restore rq qs)).
    { apply examine_accept. split; [exact Hm|]. exists qs. auto. }
    rewrite Hx. cbn [shift]. now rewrite Nat.add_0_r.
  - rewrite recv_loop_skip_prefix by (auto; lia).
    destruct (ATTEMPTS - length pre)%nat as [|k] eqn:Ek; [lia|]. cbn [recv_loop].
    rewrite (proj2 (examine_fail rq d (fatal_class d)) (conj Hd eq_refl)). cbn [shift]. now rewrite Nat.add_0_r.
  - rewrite recv_loop_skip_prefix by (auto; lia).
    destruct (ATTEMPTS - length pre)%nat as [|k] eqn:Ek; [lia|]. cbn [recv_loop shift]. now rewrite Nat.add_0_r.
  - rewrite recv_loop_skip_prefix by (auto; lia). rewrite Hl, Nat.sub_diag. reflexivity.
  - rewrite <- (app_nil_r pre) at 1. rewrite recv_loop_skip_prefix by (auto; lia).
    destruct (ATTEMPTS - length pre)%nat as [|k] eqn:Ek; [lia|]. cbn [recv_loop shift]. now rewrite Nat.add_0_r.
Qed.

(* every event list has an outcome in the specification (totality), by running the loop *)
Lemma udp_spec_total_aux rq : forall k pre evs,
  Forall (skippable rq) pre -> (length pre + k = ATTEMPTS)%nat ->
  exists o, udp_spec rq (pre ++ evs) o.
Proof.
  induction k as [|k IH]; intros pre evs Hf Hl.
  - exists Exceeded. apply sp_exceeded; [lia|exact Hf].
  - destruct evs as [|[d|] evs].
    + exists (Waiting (length pre)). rewrite app_nil_r. apply sp_waiting; [lia|exact Hf].
    + destruct (examine rq d) as [|e|qs'] eqn:E.
      * apply examine_skip in E.
        destruct (IH (pre ++ [SDg d]) evs) as (o & Ho).
        { apply Forall_app. split; [exact Hf|]. constructor; [exact E|constructor]. }
        { rewrite app_length. cbn [length]. lia. }
        exists o. rewrite <- app_assoc in Ho. exact Ho.
      * apply examine_fail in E. destruct E as [Hd ->].
        exists (Failed (length pre) (fatal_class d)). apply sp_fatal; [lia|exact Hf|exact Hd].
      * apply examine_accept in E. destruct E as [Hm (qs & Hb & ->)].
        exists (Accepted (length pre) d (restore rq qs)). apply sp_accept; [lia|exact Hf|exact Hm|exact Hb].
    + exists (Failed (length pre) EIo). apply sp_ioerr; [lia|exact Hf].
Qed.

Lemma udp_spec_complete rq evs : udp_spec rq evs (udp_recv rq evs).
Proof.
  destruct (udp_spec_total_aux rq ATTEMPTS [] evs (Forall_nil _) eq_refl) as (o & Ho).
  cbn [app] in Ho. rewrite (udp_spec_sound rq evs o Ho). exact Ho.
Qed.

Lemma udp_spec_iff rq evs o : udp_spec rq evs o <-> udp_recv rq evs = o.
Proof. split; [apply udp_spec_sound|intros <-; apply udp_spec_complete]. Qed.

Lemma examined_le rq evs : (examined (udp_recv rq evs) <= ATTEMPTS)%nat.
Proof.
  pose proof (udp_spec_complete rq evs) as H.
  destruct H; cbn [examined]; lia.
Qed.

(* ---------- consequences used in Props.v ---------- *)

Lemma app_inv_length {A} (a1 a2 b1 b2 : list A) :
  length a1 = length a2 -> a1 ++ b1 = a2 ++ b2 -> a1 = a2 /\ b1 = b2.
Proof.
  revert a2; induction a1 as [|x a1 IH]; intros [|y a2] Hl H; cbn in *; try lia; auto.
  inversion H; subst. destruct (IH a2) as [-> ->]; auto.
Qed.

Lemma accept_iff rq evs n d :
  (exists qs, udp_recv rq evs = Accepted n d qs) <->
  ((n < ATTEMPTS)%nat /\ exists pre post, evs = pre ++ SDg d :: post /\ length pre = n /\
                                         Forall (skippable rq) pre /\ matching rq d).
Proof.
  split.
  - intros (qs & H). apply udp_spec_iff in H. inversion H as [pre d' post qs' Hl Hf Hm Hb| | | |]; subst.
    split; [exact Hl|]. exists pre, post. auto.
  - intros (Hn & pre & post & -> & <- & Hf & Hm). destruct Hm as [Hs (qs & Hb & Hall)].
    exists (restore rq qs). apply udp_spec_iff. apply sp_accept; auto. split; [exact Hs|]. exists qs. auto.
Qed.

Lemma accept_sound rq evs n d qs :
  udp_recv rq evs = Accepted n d qs ->
  matching rq d /\ (n < ATTEMPTS)%nat /\ nth_error evs n = Some (SDg d) /\
  (forall i, (i < n)%nat -> exists e, nth_error evs i = Some e /\ skippable rq e).
Proof.
  intros H. destruct (proj1 (accept_iff rq evs n d) (ex_intro _ qs H)) as (Hn & pre & post & -> & <- & Hf & Hm).
  split; [exact Hm|]. split; [exact Hn|]. split.
  - rewrite nth_error_app2 by lia. now rewrite Nat.sub_diag.
  - intros i Hi. rewrite nth_error_app1 by exact Hi.
    destruct (nth_error pre i) as [e|] eqn:E; [|apply nth_error_None in E; lia].
    exists e. split; [reflexivity|]. rewrite Forall_forall in Hf. apply Hf. eapply nth_error_In, E.
Qed.

Lemma flood_exceeds rq pre post :
  length pre = ATTEMPTS -> Forall (skippable rq) pre -> udp_recv rq (pre ++ post) = Exceeded.
Proof. intros Hl Hf. apply udp_spec_iff. now apply sp_exceeded. Qed.

(* the classes of forged datagrams named in the property are all skipped *)
Lemma skip_wrong_source rq d : ~ from_server rq d -> skippable rq (SDg d).
Proof. intros H. split; intros [Hs _]; auto. Qed.

Lemma skip_wrong_id rq d id qs :
  d_body d = BMsg true id qs -> id <> r_id rq -> skippable rq (SDg d).
Proof.
  intros Hb Hid. split.
  - intros [_ (q & Hq & _)]. congruence.
  - intros [_ Hf]. rewrite Hb in Hf. destruct Hf as [Hi _]. auto.
Qed.

Lemma skip_unasked_question rq d id qs e :
  d_body d = BMsg true id qs -> In e qs ->
  (forall r, In r (r_qs rq) -> qtype r = qtype e -> qclass r = qclass e -> ~ same_name_ci (qname r) (qname e)) ->
  skippable rq (SDg d).
Proof.
  intros Hb He Hno. split.
  - intros [_ (q & Hq & Hall)]. rewrite Hb in Hq. inversion Hq; subst q.
    specialize (Hall e He). apply asked_unfold in Hall.
    assert (Hl : asked_loose rq e) by (destruct (r_case rq); [apply asked_exact_loose|]; exact Hall).
    destruct Hl as (r & Hr0 & Hr1 & Hr2 & Hr3). exact (Hno r Hr0 Hr1 Hr2 Hr3).
  - intros [_ Hf]. rewrite Hb in Hf. destruct Hf as (_ & _ & Hl & _).
    destruct (Hl e He) as (r & Hr0 & Hr1 & Hr2 & Hr3). exact (Hno r Hr0 Hr1 Hr2 Hr3).
Qed.

(* canon identifies exactly the IPv4-mapped spelling with the IPv4 address *)
Lemma canon_eq_cases x y :
  canon x = canon y <->
  match x, y with
  | V4 a, V4 b => a = b
  | V6 a, V6 b => a = b \/ (a / 4294967296 = 65535 /\ b / 4294967296 = 65535 /\ a mod 4294967296 = b mod 4294967296)
  | V4 a, V6 b => b / 4294967296 = 65535 /\ b mod 4294967296 = a
  | V6 a, V4 b => a / 4294967296 = 65535 /\ a mod 4294967296 = b
  end.
Proof.
  destruct x as [a|a], y as [b|b]; cbn [canon].
  - split; [intros H; inversion H; auto|intros ->; auto].
  - destruct (N.eqb (b / 4294967296) 65535) eqn:E.
    + apply N.eqb_eq in E. split; [intros H; inversion H; auto|intros [_ <-]; auto].
    + apply N.eqb_neq in E. split; [discriminate|intros [H _]; congruence].
  - destruct (N.eqb (a / 4294967296) 65535) eqn:E.
    + apply N.eqb_eq in E. split; [intros H; inversion H; auto|intros [_ <-]; auto].
    + apply N.eqb_neq in E. split; [discriminate|intros [H _]; congruence].
  - destruct (N.eqb (a / 4294967296) 65535) eqn:Ea; destruct (N.eqb (b / 4294967296) 65535) eqn:Eb;
      rewrite ?N.eqb_eq, ?N.eqb_neq in *.
    + split.
      * intros H. inversion H. right. auto.
      * intros [->|(_ & _ & ->)]; reflexivity.
    + split; [discriminate|]. intros [->|(_ & H & _)]; congruence.
    + split; [discriminate|]. intros [->|(H & _ & _)]; congruence.
    + split; [intros H; inversion H; auto|]. intros [->|(H & _ & _)]; [reflexivity|congruence].
Qed.
