(* C16 — proofs about the whole UDP request: retry driver around the receive loop. *)
From HV Require Import Lib.Base C16.Model C16.UdpProofs.
Open Scope N_scope.

Definition tx_ok (t : tx) : Prop := (t_left t + t_seen t = ATTEMPTS)%nat /\ (1 <= t_left t)%nat.
Definition rinv (max_tasks : nat) (st : rstate) : Prop :=
  Forall tx_ok (txs st) /\ (length (txs st) <= Nat.max 1 max_tasks)%nat.

Lemma set_nth_length {A} n (x : A) l : length (set_nth n x l) = length l.
Proof. revert n; induction l as [|y l IH]; intros [|n]; cbn [set_nth length]; auto. Qed.

Lemma set_nth_forall {A} (P : A -> Prop) n x l : Forall P l -> P x -> Forall P (set_nth n x l).
Proof.
  intros Hl Hx. revert n; induction Hl as [|y l Hy Hl IH]; intros [|n]; cbn [set_nth]; constructor; auto.
Qed.

Lemma start_tx_inv max_tasks st st' :
  rinv max_tasks st -> (length (txs st) < Nat.max 1 max_tasks)%nat -> start_tx st = inl st' -> rinv max_tasks st'.
Proof.
  intros [Hf Hl] Hlt. unfold start_tx.
  assert (Hnew : rinv max_tasks (RS (txs st ++ [TX ATTEMPTS 0]) (armed st) (tl (setups st)))).
  { split; cbn [txs].
    - apply Forall_app. split; [exact Hf|]. constructor; [|constructor]. split; cbn; unfold ATTEMPTS; lia.
    - rewrite app_length. cbn [length]. lia. }
  destruct (setups st) as [|[| | |] rest]; intros H; inversion H; subst; exact Hnew.
Qed.

Lemma rstep_inv rq max_tasks st ev st' :
  rinv max_tasks st -> rstep rq max_tasks st ev = inl st' -> rinv max_tasks st'.
Proof.
  intros Hi. destruct ev as [i e| |]; cbn [rstep].
  - destruct (nth_error (txs st) i) as [t|] eqn:Et; [|intros H; inversion H; subst; exact Hi].
    destruct e as [d|]; [|discriminate]. destruct (examine rq d); try discriminate.
    destruct (t_left t) as [|[|k]] eqn:El; try discriminate. intros H; inversion H; subst. clear H.
    destruct Hi as [Hf Hl]. split; cbn [txs].
    + apply set_nth_forall; [exact Hf|]. rewrite Forall_forall in Hf. destruct (Hf t (nth_error_In _ _ Et)) as [H1 H2].
      split; cbn [t_left t_seen]; lia.
    + now rewrite set_nth_length.
  - destruct (armed st); [|intros H; inversion H; subst; exact Hi].
    destruct (length (txs st) <? max_tasks)%nat eqn:El.
    + apply Nat.ltb_lt in El. apply start_tx_inv; [exact Hi|lia].
    + intros H; inversion H; subst. exact Hi.
  - discriminate.
Qed.

(* whichever transmission completes the request, and however the retries interleave: the
   accepted datagram is a matching reply, arrived at that transmission's socket, and at most
   two datagrams were skipped on that socket before it *)
Lemma rrun_accept rq max_tasks evs : forall st i n d qs,
  rinv max_tasks st -> rrun rq max_tasks st evs = RAccepted i n d qs ->
  matching rq d /\ (n < ATTEMPTS)%nat /\ In (URx i (SDg d)) evs /\ (i < Nat.max 1 max_tasks)%nat.
Proof.
  induction evs as [|ev evs IH]; intros st i n d qs Hi; cbn [rrun]; [discriminate|].
  destruct (rstep rq max_tasks st ev) as [st'|r] eqn:Es.
  - intros H. destruct (IH st' i n d qs (rstep_inv _ _ _ _ _ Hi Es) H) as (H1 & H2 & H3 & H4).
    split; [exact H1|]. split; [exact H2|]. split; [right; exact H3|exact H4].
  - intros ->. destruct ev as [j e| |]; cbn [rstep] in Es.
    + destruct (nth_error (txs st) j) as [t|] eqn:Et; [|discriminate].
      destruct e as [d'|]; [|discriminate]. destruct (examine rq d') as [|er|qs'] eqn:Ex.
      * destruct (t_left t) as [|[|k]]; discriminate.
      * discriminate.
      * inversion Es; subst. apply examine_accept in Ex. destruct Ex as [Hm _].
        destruct Hi as [Hf Hl]. rewrite Forall_forall in Hf. destruct (Hf t (nth_error_In _ _ Et)) as [H1 H2].
        split; [exact Hm|]. split; [lia|]. split; [left; reflexivity|].
        assert (i < length (txs st))%nat by (apply nth_error_Some; congruence). lia.
    + destruct (armed st); [|discriminate]. destruct (length (txs st) <? max_tasks)%nat; [|discriminate].
      unfold start_tx in Es. destruct (setups st) as [|[| | |] rest]; discriminate.
    + discriminate.
Qed.

Lemma init_rinv max_tasks sups : rinv max_tasks (RS [] true sups).
Proof. split; cbn [txs length]; [constructor|lia]. Qed.

Lemma request_accept rq max_tasks sups evs i n d qs :
  udp_request rq max_tasks sups evs = RAccepted i n d qs ->
  matching rq d /\ (n < ATTEMPTS)%nat /\ In (URx i (SDg d)) evs /\ (i < Nat.max 1 max_tasks)%nat.
Proof.
  unfold udp_request. destruct (start_tx (RS [] true sups)) as [st|r] eqn:Es.
  - apply rrun_accept. eapply start_tx_inv; [apply init_rinv| |exact Es]. cbn [txs length]. lia.
  - intros ->. unfold start_tx in Es. cbn in Es. destruct sups as [|[| | |] rest]; discriminate.
Qed.

(* state after a script, if the request is still running *)
Fixpoint rafter (rq : request) (max_tasks : nat) (st : rstate) (evs : list uev) : option rstate :=
  match evs with
  | [] => Some st
  | ev :: evs' => match rstep rq max_tasks st ev with inl st' => rafter rq max_tasks st' evs' | inr _ => None end
  end.

Lemma rafter_inv rq max_tasks evs : forall st st',
  rinv max_tasks st -> rafter rq max_tasks st evs = Some st' -> rinv max_tasks st'.
Proof.
  induction evs as [|ev evs IH]; intros st st' Hi; cbn [rafter]; [intros H; inversion H; subst; exact Hi|].
  destruct (rstep rq max_tasks st ev) as [st1|r] eqn:Es; [|discriminate].
  apply IH. eapply rstep_inv; eauto.
Qed.

(* with a single transmission the request behaves exactly like the receive loop *)
Definition lift (o : outcome) : rres :=
  match o with
  | Accepted n d qs => RAccepted O n d qs
  | Failed n e => RFailed O n e
  | Exceeded => RExceeded O
  | Waiting _ => RWaiting
  end.

Lemma rrun_single rq max_tasks sevs : forall k n a sups,
  (1 <= k)%nat ->
  rrun rq max_tasks (RS [TX k n] a sups) (map (URx O) sevs) = lift (recv_loop rq k n sevs).
Proof.
  induction sevs as [|e sevs IH]; intros k n a sups Hk.
  - destruct k; [lia|]. reflexivity.
  - destruct k as [|k]; [lia|]. cbn [map rrun rstep nth_error txs recv_loop].
    destruct e as [d|]; [|reflexivity]. destruct (examine rq d) as [|er|qs]; try reflexivity.
    cbn [t_left t_seen]. destruct k as [|k]; [reflexivity|]. cbn [set_nth]. apply IH. lia.
Qed.

Lemma request_single rq max_tasks sevs :
  udp_request rq max_tasks [] (map (URx O) sevs) = lift (udp_recv rq sevs).
Proof. unfold udp_request, start_tx. cbn [setups txs app length]. apply rrun_single. unfold ATTEMPTS. lia. Qed.
