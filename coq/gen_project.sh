#!/bin/sh
# regenerate _CoqProject and Makefile from the .v files present
cd "$(dirname "$0")"
{ echo "-Q . HV"; echo "-arg -w -arg -notation-overridden,-deprecated-hint-without-locality,-deprecated-instance-without-locality"; find . -name '*.v' ! -name 'cases*.v' | sed 's|^\./||' | sort; } > _CoqProject.new
if ! cmp -s _CoqProject.new _CoqProject 2>/dev/null; then mv _CoqProject.new _CoqProject; coq_makefile -f _CoqProject -o Makefile >/dev/null; else rm _CoqProject.new; [ -f Makefile ] || coq_makefile -f _CoqProject -o Makefile >/dev/null; fi
