(* C01 — Record::read, the section loops, Message::read, the server path, all entry points. *)
From Coq Require Import FMapPositive.
From HV Require Import Lib.Base Lib.ListX C01.Model C01.BaseProofs C01.NameProofs C01.CombProofs C01.RDataProofs.
Open Scope N_scope.

(* Record::read: owner name, 10 bytes of fixed fields, RDATA *)
Definition KREC : N := 1565.

Lemma ok_read_record : ok AR KREC 11 read_record.
Proof.
  unfold read_record, AR, KREC.
  ok_by (eapply ok_bind; [apply (okA 22 0 _ _ _ ok_read_name); lia|intros nm];
         eapply ok_bind; [apply (okA 22 0 _ _ _ ok_read_u16); lia|intros ty];
         eapply ok_bind;
           [eapply ok_if_max;
             [eapply ok_bind; [destruct nm; [apply (okA 22 0 _ _ _ (ok_ret _)); lia|apply (okA 22 0 _ _ _ (ok_fail _ 0)); lia]|intros; ok_go 22]
             |apply (okA 22 0 _ _ _ ok_read_u16); lia]
           |intros cl];
         eapply ok_bind; [apply (okA 22 0 _ _ _ ok_read_u32); lia|intros ttl];
         eapply ok_bind; [apply (okA 22 0 _ _ _ ok_read_u16); lia|intros rdl];
         eapply ok_bind; [apply (okA 22 0 _ _ _ ok_get_len); lia|intros ln];
         apply ok_if_fail_l; eapply ok_if_max;
           [apply (okA 22 0 _ _ _ (ok_ret _)); lia
           |eapply ok_bind; [apply (ok_weaken AR (KR + 1) rdl 22 1041 0); [apply (ok_with_sub AR KR 0 rdl); apply ok_read_rdata|unfold AR, KR; lia..]
                            |intros; apply (okA 22 0 _ _ _ (ok_ret _)); lia]]).
Qed.

Ltac pure_tail a :=
  repeat match goal with
         | |- ok _ _ _ (if ?b then _ else _) => destruct b
         | |- ok _ _ _ (match ?x with _ => _ end) => destruct x
         end;
  first [apply (okA a 0 _ _ _ (ok_ret _)); lia | apply (okA a 0 _ _ _ (ok_fail _ 0)); lia].

Lemma ok_records_step add op s : ok AR KREC 11 (records_step add op s).
Proof.
  unfold records_step.
  apply (ok_weaken AR (KREC + 0) (11 + 0)); [|lia..].
  eapply ok_bind; [apply ok_read_record|intros r]. unfold AR. pure_tail 22.
Qed.

(* section loops: slope = per-record constant (a record is at least 11 bytes) *)
Definition AS : N := AR + 143.

Lemma ok_read_records count add op : ok AS (KREC + 1) 0 (read_records count add op).
Proof.
  unfold read_records, AS. apply (ok_repeat_q AR KREC 11 143); [intros; apply ok_records_step|unfold KREC; lia].
Qed.

Lemma ok_read_query : ok 0 516 5 read_query.
Proof. unfold read_query. ok_by (ok_go 0). Qed.

Lemma ok_read_header : ok 0 7 12 read_header.
Proof. unfold read_header. ok_by (ok_go 0). Qed.

Lemma ok_read_sections h q : ok AS (3 * (KREC + 1)) 0 (read_sections h q).
Proof.
  unfold read_sections.
  ok_by (eapply ok_bind; [apply ok_read_records|intros an];
         eapply ok_bind; [apply ok_read_records|intros ns];
         eapply ok_bind; [apply ok_read_records|intros ar];
         cbv zeta; apply (okA AS 0 _ _ _ (ok_ret _)); unfold AS; lia).
Qed.

Definition KM : N := 3 * (KREC + 1) + 600.

Lemma ok_read_message : ok AS KM 12 read_message.
Proof.
  unfold read_message, KM.
  ok_by (eapply ok_bind; [apply (okA AS 0 _ _ _ ok_read_header); unfold AS; lia|intros h];
         eapply ok_bind; [apply (ok_weaken (0 + 104) (516 + 1) 0 AS 517 0); [apply (ok_repeat_q 0 516 5 104); [intros; ok_by (eapply ok_bind; [apply ok_read_query|intros; apply ok_ret])|lia]|unfold AS, AR; lia|lia|lia]|intros qs];
         apply ok_read_sections).
Qed.

Lemma ok_slice_from start : ok 0 0 0 (slice_from start).
Proof.
  intros c l Hc Hl. unfold slice_from. destruct (pos c <? start); constructor; cbn; try assumption; try apply same_refl; try exact I; try discriminate; try lia.
Qed.

Lemma ok_read_request : ok AS KM 17 read_request.
Proof.
  unfold read_request, KM.
  ok_by (eapply ok_bind; [apply (okA AS 0 _ _ _ ok_read_header); unfold AS; lia|intros h];
         apply ok_if_fail_l;
         eapply ok_bind; [apply (okA AS 0 _ _ _ ok_get_pos); unfold AS; lia|intros start];
         eapply ok_bind; [apply (okA AS 0 _ _ _ ok_read_query); unfold AS; lia|intros q];
         eapply ok_bind; [apply (okA AS 0 _ _ _ (ok_slice_from _)); unfold AS; lia|intros orig];
         apply ok_read_sections).
Qed.

(* every entry point *)
Lemma ok_entry e : ok AS KM 0 (entry_m e).
Proof.
  destruct e as [| | | |t]; cbn [entry_m].
  - apply (ok_weaken AS KM 12); [apply ok_read_message|lia..].
  - apply (ok_weaken AS KM 17); [apply ok_read_request|lia..].
  - eapply ok_weaken; [eapply ok_bind; [apply (okA AS AR _ _ _ ok_read_record); unfold AS; lia|intros; apply (okA AS 0 _ _ _ (ok_ret _)); unfold AS; lia]
                      |unfold KM, KREC; lia..].
  - eapply ok_weaken; [eapply ok_bind; [apply (okA AS 0 _ _ _ ok_read_name); unfold AS; lia|intros; apply (okA AS 0 _ _ _ (ok_ret _)); unfold AS; lia]
                      |unfold KM, KREC; lia..].
  - apply (ok_weaken AR KR 0); [apply ok_read_rdata|unfold AS, AR, KM, KR, KREC; lia..].
Qed.
