(* C01 — executable model of the hickory-dns wire decoder (crates/proto):
     BinDecoder primitives            serialize/binary/decoder.rs
     Name::read / read_inner          rr/domain/name.rs
     Header::read, Query::read        op/header.rs, op/query.rs
     Record::read, RData::read        rr/record.rs, rr/record_data.rs
     RDATA decoders                   rr/rdata/*.rs, dnssec/rdata/*.rs, rr/record_type_set.rs
     Message::read / read_records     op/message.rs
     Queries::read, MessageRequest    op/message_request.rs (server path, Request::from_bytes)
   written from the Rust, "as written" (including checks that can never fire and the one
   slice expression that could panic, kept as [Panic]).

   A decoder is a cursor into the packet; every model function also threads a log with a
   tick counter (one tick per primitive read / loop iteration), a pointer-hop counter and
   the list of all names decoded so far.  Decoders return a canonical byte dump of the
   decoded value, which the harness compares with a dump of the real value.
   No proofs in this file. *)
From Coq Require Import FMapPositive.
From HV Require Import Lib.Base.
Open Scope N_scope.

(* ------------------------------------------------------------------ *)
(* Results                                                             *)
(* ------------------------------------------------------------------ *)

(* DecodeError, by class (never by text) *)
Inductive err :=
| EInsufficient        (* InsufficientBytes *)
| EPtrNotPrior         (* PointerNotPriorToLabel *)
| EOverlap             (* LabelOverlapsWithOther *)
| EUnrecLabel          (* UnrecognizedLabelCode *)
| ELabelTooLong        (* LabelBytesTooLong *)
| ENameTooLong         (* DomainNameTooLong *)
| ERdLen               (* IncorrectRDataLengthRead *)
| EEdnsNotRoot         (* EdnsNameNotRoot *)
| EEmptyRecord         (* InvalidEmptyRecord *)
| ERecordAfterSig      (* RecordAfterSig *)
| ENotInAdditional     (* RecordNotInAdditionalSection *)
| EDupEdns             (* DuplicateEdns *)
| EBadQueryCount       (* BadQueryCount *)
| EUnknownType         (* UnknownRecordTypeValue: ANY / AXFR / IXFR as a record *)
| EPrevIndex           (* InvalidPreviousIndex *)
| EOther.              (* every other variant: value-level rejections inside RDATA *)

Inductive fault :=
| FErr (e : err)   (* Err(DecodeError) of class e *)
| FPanic           (* the Rust would panic here *)
| FFuel            (* a loop of the model ran out of fuel: would be a hang *)
| FUnmodelled.     (* input reached a decoder this model does not cover *)

Inductive res (A : Type) := Ok (a : A) | Bad (f : fault).
Arguments Ok {A}. Arguments Bad {A}.
Notation Err e := (Bad (FErr e)).
Notation Panic := (Bad FPanic).
Notation OutOfFuel := (Bad FFuel).
Notation Unmodelled := (Bad FUnmodelled).

Definition label := list byte.
Definition name := list label.

(* BinDecoder { buffer, remaining }: [buf] is the whole packet, [lim] the length of
   `buffer` (split_off shortens it), [pos] = index(), [rem] = the packet from [pos] on
   (invariant: rem = skipn pos buf; `remaining` = the first lim-pos bytes of it).
   [fuel0] = S |packet|, computed once.  [cap] = the most compression pointers one name may
   follow (None = no limit, the code as it is; see [hop_cap] below).  [tbl] is an index of the suffixes of the packet at
   the offsets a compression pointer can name (< 2^14), so that following a pointer costs
   O(log n) in the model instead of a walk from the start; a missing entry falls back to
   the walk, and the invariant (Proofs) says every entry present is the right suffix. *)
Definition table := PositiveMap.t (list byte).
Record cur := mkCur { buf : list byte; tbl : table; fuel0 : nat; cap : option N;
                      lim : N; pos : N; rem : list byte }.

Definition suffix_at (c : cur) (loc : N) : list byte :=
  match PositiveMap.find (N.succ_pos loc) (tbl c) with
  | Some s => s
  | None => skipn (N.to_nat loc) (buf c)
  end.

Fixpoint mk_table (k : nat) (i : N) (s : list byte) (t : table) : table :=
  match k with
  | O => t
  | S k' =>
      let t' := PositiveMap.add (N.succ_pos i) s t in
      match s with [] => t' | _ :: s' => mk_table k' (i + 1) s' t' end
  end.
Definition no_table : table := PositiveMap.empty _.

Record log := mkLog { ticks : N; hops : N; names : list name }.

(* state (decoder, log) with an exception inside: the decoder position at the point of
   failure is observable (RData::read looks at it) *)
Definition M (A : Type) := cur -> log -> res A * cur * log.

Definition ret {A} (a : A) : M A := fun c l => (Ok a, c, l).
Definition bad {A} (f : fault) : M A := fun c l => (Bad f, c, l).
Definition fail {A} (e : err) : M A := bad (FErr e).
Definition bind {A B} (m : M A) (f : A -> M B) : M B :=
  fun c l =>
    match m c l with
    | (Ok a, c', l') => f a c' l'
    | (Bad x, c', l') => (Bad x, c', l')
    end.
Notation "x <- m ;; f" := (bind m (fun x => f)) (at level 61, m at next level, right associativity).
Notation "m ;;; f" := (bind m (fun _ => f)) (at level 61, right associativity).

Definition tick_n (n : N) : M unit :=
  fun c l => (Ok tt, c, mkLog (ticks l + n) (hops l) (names l)).
Definition tick : M unit := tick_n 1.
Definition hop : M unit :=
  fun c l => (Ok tt, c, mkLog (ticks l) (hops l + 1) (names l)).
Definition log_name (n : name) : M unit :=
  fun c l => (Ok tt, c, mkLog (ticks l) (hops l) (n :: names l)).

(* Switch for the candidate repair of finding F1 (a per-name cap on compression pointers in
   read_inner): None = the code as it is today; Some 127 = with the proposed patch. *)
Definition hop_cap : option N := None.

Definition init_cap (cp : option N) (b : list byte) : cur :=
  mkCur b (mk_table (N.to_nat 16384) 0 b no_table) (S (length b)) cp (N.of_nat (length b)) 0 b.
Definition init (b : list byte) : cur := init_cap hop_cap b.
Definition log0 : log := mkLog 0 0 [].

(* ------------------------------------------------------------------ *)
(* BinDecoder primitives                                               *)
(* ------------------------------------------------------------------ *)

Definition dlen (c : cur) : N := lim c - pos c.              (* len() *)
Definition get_len : M N := fun c l => (Ok (dlen c), c, l).
Definition get_pos : M N := fun c l => (Ok (pos c), c, l).   (* index() *)
Definition is_empty : M bool := fun c l => (Ok (dlen c =? 0), c, l).

Definition advance (c : cur) (n : N) : cur :=
  mkCur (buf c) (tbl c) (fuel0 c) (cap c) (lim c) (pos c + n) (skipn (N.to_nat n) (rem c)).

(* pop / read_u8 *)
Definition pop : M byte :=
  tick ;;; fun c l =>
    if pos c <? lim c then
      match rem c with
      | b :: r => (Ok b, mkCur (buf c) (tbl c) (fuel0 c) (cap c) (lim c) (pos c + 1) r, l)
      | [] => (Err EInsufficient, c, l)
      end
    else (Err EInsufficient, c, l).

(* peek *)
Definition peek : M (option byte) :=
  tick ;;; fun c l =>
    if pos c <? lim c then
      match rem c with
      | b :: _ => (Ok (Some b), c, l)
      | [] => (Ok None, c, l)
      end
    else (Ok None, c, l).

(* read_slice / read_vec *)
Definition read_slice (n : N) : M (list byte) :=
  tick ;;; fun c l =>
    if n <=? dlen c then (Ok (firstn (N.to_nat n) (rem c)), advance c n, l)
    else (Err EInsufficient, c, l).

(* read_vec_to_end *)
Definition read_to_end : M (list byte) :=
  tick ;;; fun c l => (Ok (firstn (N.to_nat (dlen c)) (rem c)), advance c (dlen c), l).

Definition be (bs : list byte) : N := fold_left (fun acc b => acc * 256 + b) bs 0.

Definition read_u8 : M N := pop.
Definition read_u16 : M N := bs <- read_slice 2 ;; ret (be bs).
Definition read_u32 : M N := bs <- read_slice 4 ;; ret (be bs).

(* read_character_data: pop the length, then read_slice *)
Definition read_chardata : M (list byte) := n <- pop ;; read_slice n.

(* decoder.clone(loc), run [m] on the clone, drop the clone: the caller's decoder is
   untouched.  `&self.buffer[loc..]` panics when loc > buffer.len(). *)
Definition on_clone {A} (loc : N) (m : M A) : M A :=
  fun c l =>
    if lim c <? loc then (Panic, c, l)
    else
      match m (mkCur (buf c) (tbl c) (fuel0 c) (cap c) (lim c) loc (suffix_at c loc)) l with
      | (r, _, l') => (r, c, l')
      end.

(* split_off(n) followed by running [m] on the sub-decoder (consumed by value in the Rust);
   the parent continues after the n bytes.  The sub-decoder's `buffer` is
   `&self.buffer[..index()+n]`. *)
Definition with_sub {A} (n : N) (m : M A) : M A :=
  tick ;;; fun c l =>
    if n <=? dlen c then
      match m (mkCur (buf c) (tbl c) (fuel0 c) (cap c) (pos c + n) (pos c) (rem c)) l with
      | (r, _, l') => (r, advance c n, l')
      end
    else (Err EInsufficient, c, l).

(* BinDecoder::new(slice) on bytes already read (SVCB parameter values, EDNS options) *)
Definition on_bytes {A} (bs : list byte) (m : M A) : M A :=
  fun c l =>
    match m (mkCur bs no_table (S (length bs)) (cap c) (N.of_nat (length bs)) 0 bs) l with
    | (r, _, l') => (r, c, l')
    end.

(* read_slice(n) then BinDecoder::new on the slice *)
Definition sub_bytes {A} (n : N) (m : M A) : M A := data <- read_slice n ;; on_bytes data m.

(* `while <test on the decoder>` loops whose body must consume input: fuel = bytes left + 1 *)
Fixpoint while_ {A} (fuel : nat) (stop : M bool) (body : A -> M A) (acc : A) : M A :=
  match fuel with
  | O => bad FFuel
  | S fuel' =>
      tick ;;; e <- stop ;;
      if e then ret acc else a' <- body acc ;; while_ fuel' stop body a'
  end.
Definition while_m {A} (stop : M bool) (body : A -> M A) (acc : A) : M A :=
  fun c l => while_ (S (N.to_nat (dlen c))) stop body acc c l.
(* `while !decoder.is_empty()` / `while decoder.peek().is_some()` *)
Definition while_nonempty {A} (body : A -> M A) (acc : A) : M A := while_m is_empty body acc.

(* `for _ in 0..count` *)
Fixpoint repeat_m {A} (count : nat) (body : A -> M A) (acc : A) : M A :=
  match count with
  | O => ret acc
  | S k => tick ;;; a' <- body acc ;; repeat_m k body a'
  end.

(* ------------------------------------------------------------------ *)
(* Name::read                                                          *)
(* ------------------------------------------------------------------ *)

(* Name::encoded_len(): labels + label bytes + 1 (order-independent) *)
Definition enc_len (ls : name) : N :=
  fold_right (fun l acc => 1 + N.of_nat (length l) + acc) 1 ls.
(* Name::len() *)
Definition name_len (ls : name) : N :=
  match ls with [] => 1 | _ => enc_len ls - 1 end.

Definition dump_name (ls : name) : list byte :=
  fold_right (fun l acc => N.of_nat (length l) :: l ++ acc) [0] ls.

(* read_inner.  The decoder in the state is the one currently being read: the caller's, or
   (inside [on_clone]) the clone made at the last pointer.  [nstart] = name_start,
   [pmax] = ptr_max_idx, [acc] = labels so far (reversed), [nh] = pointers followed so far
   (only looked at when a cap is configured). *)
Definition cap_allows (c : cur) (nh : N) : bool :=
  match cap c with Some k => nh <? k | None => true end.

Fixpoint rd (fuel : nat) (acc : name) (nstart : N) (pmax : option N) (nh : N) : M name :=
  match fuel with
  | O => bad FFuel
  | S fuel' =>
    tick ;;;
    p <- get_pos ;;
    if (match pmax with Some mx => mx <=? p | None => false end) then fail EOverlap else
    ob <- peek ;;
    match ob with
    | None => fail EInsufficient
    | Some b =>
      if b =? 0 then
        (* Root: pop, break *)
        pop ;;; ret (rev acc)
      else if 192 <=? b then
        (* Pointer: read_u16, & 0x3FFF, must be < name_start (and, with the patch, within the
           pointer budget), clone(location) *)
        w <- read_u16 ;;
        let loc := N.land w 16383 in
        fun c l =>
          if (loc <? nstart) && cap_allows c nh
          then (hop ;;; on_clone loc (rd fuel' acc loc (Some nstart) (nh + 1))) c l
          else (Err EPtrNotPrior, c, l)
      else if b <? 64 then
        (* Label: read_character_data, <= 63, extend_name *)
        lb <- read_chardata ;;
        if 63 <? N.of_nat (length lb) then fail ELabelTooLong else
        if 255 <? enc_len acc + N.of_nat (length lb) + 1 then fail ENameTooLong else
        rd fuel' (lb :: acc) nstart pmax nh
      else fail EUnrecLabel
    end
  end.

Definition read_name : M name :=
  ls <- (fun c l => rd (fuel0 c) [] (pos c) None 0 c l) ;;
  if 255 <=? name_len ls then fail ENameTooLong else
  log_name ls ;;; ret ls.

(* ------------------------------------------------------------------ *)
(* dumps                                                               *)
(* ------------------------------------------------------------------ *)

Definition d8 (v : N) : list byte := [v mod 256].
Definition d16 (v : N) : list byte := [(v / 256) mod 256; v mod 256].
Definition d32 (v : N) : list byte :=
  [(v / 16777216) mod 256; (v / 65536) mod 256; (v / 256) mod 256; v mod 256].
Definition dbool (b : bool) : list byte := [if b then 1 else 0].
(* length-prefixed byte string *)
Definition dbytes (bs : list byte) : list byte := d32 (N.of_nat (length bs)) ++ bs.

Definition testbit (v mask : N) : bool := negb (N.land v mask =? 0).

(* ------------------------------------------------------------------ *)
(* Header, Query                                                       *)
(* ------------------------------------------------------------------ *)

Record header := mkHeader {
  h_id : N; h_b1 : N; h_b2 : N;
  h_qd : N; h_an : N; h_ns : N; h_ar : N }.

Definition read_header : M header :=
  id <- read_u16 ;; b1 <- pop ;; b2 <- pop ;;
  qd <- read_u16 ;; an <- read_u16 ;; ns <- read_u16 ;; ar <- read_u16 ;;
  ret (mkHeader id b1 b2 qd an ns ar).

Definition h_opcode (h : header) : N := (h_b1 h / 8) mod 16.

(* Metadata as decoded (the Z bit is dropped); [rcode] is the 12-bit code after the merge
   with the EDNS high bits *)
Definition dump_meta (h : header) (rcode : N) : list byte :=
  d16 (h_id h) ++ dbool (testbit (h_b1 h) 128) ++ d8 (h_opcode h) ++
  dbool (testbit (h_b1 h) 4) ++ dbool (testbit (h_b1 h) 2) ++ dbool (testbit (h_b1 h) 1) ++
  dbool (testbit (h_b2 h) 128) ++ dbool (testbit (h_b2 h) 32) ++ dbool (testbit (h_b2 h) 16) ++
  d16 rcode.

Definition read_query : M (list byte) :=
  n <- read_name ;; t <- read_u16 ;; c <- read_u16 ;;
  ret (dump_name n ++ d16 t ++ d16 c).

(* ------------------------------------------------------------------ *)
(* RDATA decoders                                                      *)
(* ------------------------------------------------------------------ *)

(* RecordTypeSet::read_data: the NSEC/NSEC3/CSYNC type bitmap state machine over the rest of
   the RDATA.  Returns the type codes in wire order (duplicates possible). *)
Inductive bmstate := BWindow | BLen (w : N) | BType (w len lft : N).

(* `for i in 0..8` over the bits of one bitmap octet, msb first; k = i *)
Fixpoint bm_bits (i : nat) (bitmap : N) (w len lft : N) (k : N) (acc : list N)
  : option (list N) :=
  match i with
  | O => Some acc
  | S i' =>
      if testbit bitmap 128 then
        (* len.checked_sub(lft).checked_mul(8).checked_add(i), all in u8 *)
        if len <? lft then None else
        let blk := len - lft in
        if 255 <? blk * 8 then None else
        if 255 <? blk * 8 + k then None else
        bm_bits i' ((bitmap * 2) mod 256) w len lft (k + 1) ((w * 256 + (blk * 8 + k)) :: acc)
      else bm_bits i' ((bitmap * 2) mod 256) w len lft (k + 1) acc
  end.

Fixpoint bm_run (bs : list byte) (st : bmstate) (acc : list N) : option (list N) :=
  match bs with
  | [] => Some (rev acc)
  | b :: bs' =>
      match st with
      | BWindow => bm_run bs' (BLen b) acc
      | BLen w => bm_run bs' (BType w b b) acc
      | BType w len lft =>
          match bm_bits 8 b w len lft 0 acc with
          | None => None
          | Some acc' =>
              if lft <? 1 then None      (* lft.checked_sub(1) *)
              else if lft - 1 =? 0 then bm_run bs' BWindow acc'
              else bm_run bs' (BType w len (lft - 1)) acc'
          end
      end
  end.

(* the dump of the BTreeSet<RecordType> is the sorted, de-duplicated list of u16 codes *)
Fixpoint insert_sorted (x : N) (l : list N) : list N :=
  match l with
  | [] => [x]
  | y :: l' => if x <? y then x :: l else if x =? y then l else y :: insert_sorted x l'
  end.
Definition sort_dedup (l : list N) : list N := fold_right insert_sorted [] l.

Definition read_type_bitmap : M (list byte) :=
  bs <- read_to_end ;;
  tick_n (N.of_nat (length bs)) ;;;
  match bm_run bs BWindow [] with
  | None => fail EOther
  | Some ts => ret (concat (map d16 (sort_dedup ts)))
  end.

(* EDNS option payloads (TryFrom<(EdnsCode,&[u8])> for EdnsOption) *)
Definition subnet_addr_len (prefix : N) : N := prefix / 8 + (if 0 <? prefix mod 8 then 1 else 0).

Fixpoint read_octets (k : nat) (acc : list byte) : M (list byte) :=
  match k with
  | O => ret (rev acc)
  | S k' => b <- read_u8 ;; read_octets k' (b :: acc)
  end.
Fixpoint pad_to (n : nat) (l : list byte) : list byte :=
  match n with
  | O => []
  | S n' => match l with [] => 0 :: pad_to n' [] | x :: l' => x :: pad_to n' l' end
  end.

Definition read_client_subnet : M (list byte) :=
  family <- read_u16 ;;
  if (family =? 1) || (family =? 2) then
    let width := if family =? 1 then 4 else 16 in
    sp <- read_u8 ;; sc <- read_u8 ;;
    let al := subnet_addr_len sp in
    if width <? al then fail ERdLen else
    oct <- read_octets (N.to_nat al) [] ;;
    ret (d16 family ++ d8 sp ++ d8 sc ++ pad_to (N.to_nat width) oct)
  else fail EOther.

Definition edns_option (code : N) (data : list byte) : M (list byte) :=
  if code =? 8 then d <- on_bytes data read_client_subnet ;; ret (d16 code ++ d)
  else if code =? 5 then ret (d16 code)                     (* DAU: set of algorithms, not dumped *)
  else ret (d16 code ++ dbytes data).                       (* NSID and unknown codes: raw *)

(* OPT::read_data: the three-state loop *)
Inductive optstate := OReadCode | OCode (code : N) | OData (code len : N) (coll : list byte).

Definition opt_step (rdlen : N) (sa : optstate * list (list byte)) : M (optstate * list (list byte)) :=
  let '(st, acc) := sa in
  match st with
  | OReadCode => code <- read_u16 ;; ret (OCode code, acc)
  | OCode code =>
      len <- read_u16 ;;
      if rdlen <? len then fail ERdLen else
      if len =? 0 then o <- edns_option code [] ;; ret (OReadCode, o :: acc)
      else ret (OData code len [], acc)
  | OData code len coll =>
      b <- pop ;;
      let coll' := b :: coll in
      if len =? N.of_nat (length coll') then
        o <- edns_option code (rev coll') ;; ret (OReadCode, o :: acc)
      else ret (OData code len coll', acc)
  end.

Definition read_opt : M (list byte) :=
  rdlen <- get_len ;;
  sa <- while_nonempty (opt_step rdlen) (OReadCode, []) ;;
  match fst sa with
  | OReadCode => ret (d16 (N.of_nat (length (snd sa))) ++ concat (rev (snd sa)))
  | _ => ret (d16 0)       (* incomplete: options.clear() *)
  end.

(* TXT: character-strings to the end *)
Definition read_txt : M (list byte) :=
  ss <- while_nonempty (fun acc => s <- read_chardata ;; ret (s :: acc)) [] ;;
  ret (d16 (N.of_nat (length ss)) ++ concat (map dbytes (rev ss))).

Definition is_alnum (b : byte) : bool :=
  ((48 <=? b) && (b <=? 57)) || ((97 <=? b) && (b <=? 122)) || ((65 <=? b) && (b <=? 90)).

(* CAA read_tag *)
Fixpoint read_tag (k : nat) (acc : list byte) : M (list byte) :=
  match k with
  | O => ret (rev acc)
  | S k' => b <- pop ;; if is_alnum b then read_tag k' (b :: acc) else fail EOther
  end.

(* TSIG::read_data *)
Definition read_tsig : M (list byte) :=
  ln <- get_len ;; p0 <- get_pos ;;
  let end_idx := ln + p0 in
  alg <- read_name ;;
  th <- read_u16 ;; tl <- read_u32 ;; fudge <- read_u16 ;;
  msz <- read_u16 ;; p1 <- get_pos ;;
  if end_idx <? p1 + msz + 6 then fail ERdLen else
  mac <- read_slice msz ;;
  oid <- read_u16 ;; er <- read_u16 ;;
  olen <- read_u16 ;; p2 <- get_pos ;;
  if negb (p2 + olen =? end_idx) then fail ERdLen else
  other <- read_slice olen ;;
  ret (d16 th ++ d32 tl ++ d16 fudge ++ dbytes mac ++ d16 oid ++ d16 er ++ dbytes other).

(* SIG / RRSIG *)
Definition read_sig : M (list byte) :=
  tc <- read_u16 ;; alg <- read_u8 ;; nl <- read_u8 ;; ottl <- read_u32 ;;
  ex <- read_u32 ;; inc <- read_u32 ;; tag <- read_u16 ;; signer <- read_name ;;
  sg <- read_to_end ;;
  ret (d16 tc ++ d8 alg ++ d8 nl ++ d32 ottl ++ d32 ex ++ d32 inc ++ d16 tag ++
       dump_name signer ++ dbytes sg).

(* NSEC3 / NSEC3PARAM common prefix; dump of (flags, iterations, salt) *)
Definition read_nsec3_head : M (list byte) :=
  ha <- read_u8 ;;
  if negb (ha =? 1) then fail EOther else
  fl <- read_u8 ;;
  if testbit fl 254 then fail EOther else
  it <- read_u16 ;;
  sl <- read_u8 ;; ln <- get_len ;;
  if ln <? sl then fail ERdLen else
  salt <- read_slice sl ;;
  ret (d8 fl ++ d16 it ++ dbytes salt).

Definition read_nsec3 : M (list byte) :=
  hd <- read_nsec3_head ;;
  hl <- read_u8 ;; ln <- get_len ;;
  if ln <? hl then fail ERdLen else
  nx <- read_slice hl ;;
  bm <- read_type_bitmap ;;
  ret (hd ++ dbytes nx ++ bm).

(* UTF-8 validity (String::from_utf8; Unicode table 3-7) *)
Definition is_cont (b : byte) : bool := (128 <=? b) && (b <=? 191).
Fixpoint utf8_ok (fuel : nat) (bs : list byte) : bool :=
  match fuel with
  | O => false
  | S f =>
    match bs with
    | [] => true
    | b0 :: r =>
      if b0 <? 128 then utf8_ok f r
      else if (194 <=? b0) && (b0 <=? 223) then
        match r with b1 :: r' => is_cont b1 && utf8_ok f r' | _ => false end
      else if (224 <=? b0) && (b0 <=? 239) then
        match r with
        | b1 :: b2 :: r' =>
            (if b0 =? 224 then (160 <=? b1) && (b1 <=? 191)
             else if b0 =? 237 then (128 <=? b1) && (b1 <=? 159)
             else is_cont b1) && is_cont b2 && utf8_ok f r'
        | _ => false
        end
      else if (240 <=? b0) && (b0 <=? 244) then
        match r with
        | b1 :: b2 :: b3 :: r' =>
            (if b0 =? 240 then (144 <=? b1) && (b1 <=? 191)
             else if b0 =? 244 then (128 <=? b1) && (b1 <=? 143)
             else is_cont b1) && is_cont b2 && is_cont b3 && utf8_ok f r'
        | _ => false
        end
      else false
    end
  end.

Definition read_aaaa : M (list byte) :=
  a <- read_slice 2 ;; b <- read_slice 2 ;; c <- read_slice 2 ;; d <- read_slice 2 ;;
  e <- read_slice 2 ;; f <- read_slice 2 ;; g <- read_slice 2 ;; h <- read_slice 2 ;;
  ret (a ++ b ++ c ++ d ++ e ++ f ++ g ++ h).

(* SVCB parameter values (SvcParamValue::read on a fresh decoder over the value bytes) *)
Definition svcb_value (key : N) (len : N) : M (list byte) :=
  if key =? 0 then      (* mandatory: u16 keys while peek().is_some() *)
    ks <- while_nonempty (fun acc => k <- read_u16 ;; ret (k :: acc)) [] ;;
    match ks with [] => fail EOther | _ => ret (concat (map d16 (rev ks))) end
  else if key =? 1 then (* alpn *)
    ss <- while_nonempty
            (fun acc => s <- read_chardata ;;
                        if utf8_ok (S (length s)) s then ret (s :: acc) else fail EOther) [] ;;
    match ss with [] => fail EOther | _ => ret (concat (map dbytes (rev ss))) end
  else if key =? 2 then (if 0 <? len then fail ERdLen else ret [])
  else if key =? 3 then                      (* port: exactly two octets *)
    (if negb (len =? 2) then fail ERdLen else p <- read_u16 ;; ret (d16 p))
  else if key =? 4 then
    ips <- while_nonempty (fun acc => a <- read_octets 4 [] ;; ret (a :: acc)) [] ;;
    ret (concat (rev ips))
  else if key =? 6 then
    ips <- while_nonempty (fun acc => a <- read_aaaa ;; ret (a :: acc)) [] ;;
    ret (concat (rev ips))
  else bs <- read_to_end ;; ret bs.   (* ech, keyNNNNN, key65535, unknown *)

(* SVCB::read_data: `while decoder.len() >= 4`; state = (last key, params so far) *)
Definition svcb_step (st : option N * list (list byte)) : M (option N * list (list byte)) :=
  key <- read_u16 ;;
  len <- read_u16 ;; ln' <- get_len ;;
  if ln' <? len then fail ERdLen else
  v <- sub_bytes len (svcb_value key len) ;;
  if (match fst st with Some k => key <=? k | None => false end) then fail EOther else
  ret (Some key, (d16 key ++ dbytes v) :: snd st).

Definition read_svcb : M (list byte) :=
  prio <- read_u16 ;; target <- read_name ;;
  st <- while_m (ln <- get_len ;; ret (ln <? 4)) svcb_step (None, []) ;;
  let ps := rev (snd st) in
  ret (d16 prio ++ dump_name target ++ d16 (N.of_nat (length ps)) ++ concat ps).

Definition read_a : M (list byte) := read_octets 4 [].                       (* A: 4 pops *)
Definition read_name_rdata : M (list byte) := n <- read_name ;; ret (dump_name n).
Definition read_caa : M (list byte) :=
  fl <- read_u8 ;; tl <- read_u8 ;;
  if (tl =? 0) || (15 <? tl) then fail EOther else
  tag <- read_tag (N.to_nat tl) [] ;;
  v <- read_to_end ;;
  ret (d8 fl ++ dbytes tag ++ dbytes v).
Definition read_cert : M (list byte) :=
  ln <- get_len ;;
  if ln <=? 5 then fail ERdLen else
  ct <- read_u16 ;; kt <- read_u16 ;; al <- read_u8 ;; d <- read_to_end ;;
  ret (d16 ct ++ d16 kt ++ d8 al ++ dbytes d).
Definition read_csync : M (list byte) :=
  ser <- read_u32 ;; fl <- read_u16 ;;
  if testbit fl 252 then fail EOther else
  bm <- read_type_bitmap ;;
  ret (d32 ser ++ d16 fl ++ bm).
Definition read_hinfo : M (list byte) :=
  a <- read_chardata ;; b <- read_chardata ;; ret (dbytes a ++ dbytes b).
Definition read_mx : M (list byte) := p <- read_u16 ;; n <- read_name ;; ret (d16 p ++ dump_name n).
Definition read_naptr : M (list byte) :=
  o <- read_u16 ;; p <- read_u16 ;;
  fl <- read_chardata ;;
  if negb (forallb is_alnum fl) then fail EOther else
  sv <- read_chardata ;; re <- read_chardata ;; n <- read_name ;;
  ret (d16 o ++ d16 p ++ dbytes fl ++ dbytes sv ++ dbytes re ++ dump_name n).
Definition read_tlsa : M (list byte) :=
  u <- read_u8 ;; s <- read_u8 ;; m <- read_u8 ;; d <- read_to_end ;;
  ret (d8 u ++ d8 s ++ d8 m ++ dbytes d).
Definition read_soa : M (list byte) :=
  mn <- read_name ;; rn <- read_name ;;
  a <- read_u32 ;; b <- read_u32 ;; c <- read_u32 ;; d <- read_u32 ;; e <- read_u32 ;;
  ret (dump_name mn ++ dump_name rn ++ d32 a ++ d32 b ++ d32 c ++ d32 d ++ d32 e).
Definition read_srv : M (list byte) :=
  a <- read_u16 ;; b <- read_u16 ;; c <- read_u16 ;; n <- read_name ;;
  ret (d16 a ++ d16 b ++ d16 c ++ dump_name n).
Definition read_sshfp : M (list byte) :=
  a <- read_u8 ;; f <- read_u8 ;; d <- read_to_end ;; ret (d8 a ++ d8 f ++ dbytes d).
Definition read_dnskey : M (list byte) :=
  fl <- read_u16 ;; pr <- read_u8 ;;
  if negb (pr =? 3) then fail EOther else
  al <- read_u8 ;; k <- read_to_end ;;
  ret (d16 fl ++ d8 al ++ dbytes k).
(* CDNSKEY: algorithm 0 = delete; the key bytes are then not observable through the API *)
Definition read_cdnskey : M (list byte) :=
  fl <- read_u16 ;; pr <- read_u8 ;;
  if negb (pr =? 3) then fail EOther else
  al <- read_u8 ;; k <- read_to_end ;;
  ret (d16 fl ++ d8 al ++ (if al =? 0 then [] else dbytes k)).
Definition read_ds : M (list byte) :=
  kt <- read_u16 ;; al <- read_u8 ;; dt <- read_u8 ;; d <- read_to_end ;;
  ret (d16 kt ++ d8 al ++ d8 dt ++ dbytes d).
Definition read_key : M (list byte) :=
  fl <- read_u16 ;;
  if testbit fl 11504 then fail EOther else       (* 0b0010_1100_1111_0000 *)
  if testbit fl 4096 then fail EOther else        (* extended flags *)
  pr <- read_u8 ;; al <- read_u8 ;; k <- read_to_end ;;
  ret (d8 pr ++ d8 al ++ dbytes k).
Definition read_nsec : M (list byte) :=
  n <- read_name ;; bm <- read_type_bitmap ;; ret (dump_name n ++ bm).
(* NULL, OPENPGPKEY and every unknown type: the rest of the RDATA as opaque bytes *)
Definition read_opaque : M (list byte) := bs <- read_to_end ;; ret (dbytes bs).

(* RData::read's match arms, by type code (ANY/AXFR/IXFR are rejected before) *)
Definition rdata_table : list (N * M (list byte)) :=
  [ (1, read_a); (28, read_aaaa);
    (2, read_name_rdata); (5, read_name_rdata); (12, read_name_rdata); (65305, read_name_rdata);
    (257, read_caa); (37, read_cert); (62, read_csync); (13, read_hinfo);
    (64, read_svcb); (65, read_svcb); (0, ret []); (15, read_mx); (35, read_naptr);
    (41, read_opt); (53, read_tlsa); (52, read_tlsa); (6, read_soa); (33, read_srv);
    (44, read_sshfp); (250, read_tsig); (16, read_txt);
    (48, read_dnskey); (60, read_cdnskey); (43, read_ds); (59, read_ds); (25, read_key);
    (47, read_nsec); (50, read_nsec3); (51, read_nsec3_head); (46, read_sig); (24, read_sig) ].

Definition read_rdata_body (rtype : N) : M (list byte) :=
  match find (fun p => fst p =? rtype) rdata_table with
  | Some p => snd p
  | None => read_opaque
  end.

(* RData::read: ANY/AXFR/IXFR return early; otherwise the "all rdata consumed" test comes
   before `result` is looked at, so it overrides an inner error when bytes are lft *)
Definition read_rdata (rtype : N) : M (list byte) :=
  if (rtype =? 255) || (rtype =? 251) || (rtype =? 252) then fail EUnknownType else
  fun c l =>
    match read_rdata_body rtype c l with
    | (Ok d, c', l') => if dlen c' =? 0 then (Ok d, c', l') else (Err ERdLen, c', l')
    | (Err e, c', l') => if dlen c' =? 0 then (Err e, c', l') else (Err ERdLen, c', l')
    | r => r
    end.

(* ------------------------------------------------------------------ *)
(* Record::read                                                        *)
(* ------------------------------------------------------------------ *)

Record rec := mkRec { r_type : N; r_update0 : bool; r_class : N; r_ttl : N;
                      r_rdump : list byte; r_dump : list byte }.

Definition read_record : M rec :=
  nm <- read_name ;;
  ty <- read_u16 ;;
  cl <- (if ty =? 41 then
           (match nm with [] => ret tt | _ => fail EEdnsNotRoot end) ;;;
           v <- read_u16 ;; ret (N.max v 512)
         else read_u16) ;;
  ttl <- read_u32 ;;
  rdl <- read_u16 ;; ln <- get_len ;;
  if ln <? rdl then fail ERdLen else
  if rdl =? 0 then
    ret (mkRec ty true cl ttl [] (dump_name nm ++ d16 ty ++ d16 cl ++ d32 ttl ++ [0]))
  else
    rd <- with_sub rdl (read_rdata ty) ;;
    ret (mkRec ty false cl ttl rd (dump_name nm ++ d16 ty ++ d16 cl ++ d32 ttl ++ [1] ++ rd)).

(* ------------------------------------------------------------------ *)
(* Message::read_records / Message::read / MessageRequest              *)
(* ------------------------------------------------------------------ *)

Record section := mkSec { s_recs : list (list byte) (* reversed *);
                          s_edns : option rec; s_sig : option rec }.

Definition records_step (is_additional : bool) (opcode : N) (s : section) : M section :=
  r <- read_record ;;
  if negb (opcode =? 5) && negb (r_type r =? 41) && r_update0 r then fail EEmptyRecord else
  match s_sig s with Some _ => fail ERecordAfterSig | None =>
  if negb is_additional && ((r_type r =? 41) || (r_type r =? 24) || (r_type r =? 250))
  then fail ENotInAdditional
  else if negb is_additional then ret (mkSec (r_dump r :: s_recs s) (s_edns s) (s_sig s))
  else
    (* match record.data *)
    if negb (r_update0 r) && (r_type r =? 250) then ret (mkSec (s_recs s) (s_edns s) (Some r))
    else if r_type r =? 41 then
      match s_edns s with
      | Some _ => fail EDupEdns
      | None => ret (mkSec (s_recs s) (Some r) (s_sig s))
      end
    else ret (mkSec (r_dump r :: s_recs s) (s_edns s) (s_sig s))
  end.

Definition read_records (count : N) (is_additional : bool) (opcode : N) : M section :=
  repeat_m (N.to_nat count) (records_step is_additional opcode) (mkSec [] None None).

Definition dump_list (xs : list (list byte)) : list byte :=
  d16 (N.of_nat (length xs)) ++ concat xs.

(* Edns::from(&Record) *)
Definition dump_edns (r : rec) : list byte :=
  d8 (r_ttl r / 16777216) ++ d8 (r_ttl r / 65536) ++ d16 (r_ttl r) ++ d16 (r_class r) ++
  (if r_update0 r then d16 0 else r_rdump r).

Definition dump_opt {A} (f : A -> list byte) (o : option A) : list byte :=
  match o with None => [0] | Some x => 1 :: f x end.

Definition read_sections (h : header) (queries : list byte) : M (list byte) :=
  an <- read_records (h_an h) false (h_opcode h) ;;
  ns <- read_records (h_ns h) false (h_opcode h) ;;
  ar <- read_records (h_ar h) true (h_opcode h) ;;
  let low := h_b2 h mod 16 in
  let rcode := match s_edns ar with
               | Some e => ((r_ttl e / 16777216) mod 256) * 16 + low
               | None => low
               end in
  ret (dump_meta h rcode ++ queries ++
       dump_list (rev (s_recs an)) ++ dump_list (rev (s_recs ns)) ++ dump_list (rev (s_recs ar)) ++
       dump_opt dump_edns (s_edns ar) ++ dump_opt r_dump (s_sig ar)).

(* Message::read *)
Definition read_message : M (list byte) :=
  h <- read_header ;;
  qs <- repeat_m (N.to_nat (h_qd h)) (fun acc => q <- read_query ;; ret (q :: acc)) [] ;;
  read_sections h (dump_list (rev qs)).

(* Request::from_bytes: Header::read, Queries::read (exactly one question, slice_from),
   MessageRequest::read_with_queries *)
Definition slice_from (start : N) : M (list byte) :=
  fun c l =>
    if pos c <? start then (Err EPrevIndex, c, l)
    else (Ok (firstn (N.to_nat (pos c - start)) (skipn (N.to_nat start) (buf c))), c, l).

Definition read_request : M (list byte) :=
  h <- read_header ;;
  if negb (h_qd h =? 1) then fail EBadQueryCount else
  start <- get_pos ;;
  q <- read_query ;;
  orig <- slice_from start ;;
  read_sections h (dump_list [q] ++ dbytes orig).

(* ------------------------------------------------------------------ *)
(* Entry points                                                        *)
(* ------------------------------------------------------------------ *)

Inductive entry := EMessage | ERequest | ERecord | EName | ERData (rtype : N).

Definition entry_m (e : entry) : M (list byte) :=
  match e with
  | EMessage => read_message
  | ERequest => read_request
  | ERecord => r <- read_record ;; ret (r_dump r)
  | EName => n <- read_name ;; ret (dump_name n)
  | ERData t => read_rdata t
  end.

(* outcome (dump of the value), final decoder, log *)
Definition run_cap (cp : option N) (e : entry) (b : list byte) : res (list byte) * cur * log :=
  entry_m e (init_cap cp b) log0.
Definition run (e : entry) (b : list byte) : res (list byte) * cur * log := run_cap hop_cap e b.

(* ------------------------------------------------------------------ *)
(* Specification                                                       *)
(* ------------------------------------------------------------------ *)

(* a decoded name: every label 1..63 octets, wire length (with length octets and the root)
   at most 255 *)
Definition wf_label (l : label) : Prop := (1 <= length l <= 63)%nat.
Definition wf_name (n : name) : Prop := Forall wf_label n /\ enc_len n <= 255.

(* value or error: no panic, no hang, nothing outside the model *)
Definition total {A} (r : res A) : Prop :=
  match r with Ok _ | Err _ => True | _ => False end.

(* time: ticks (primitive reads + loop iterations) plus pointer hops *)
Definition cost (l : log) : N := ticks l + hops l.
