(* C01 — combinators of the specification [ok]: sequencing, loops, sub-decoders. *)
From Coq Require Import FMapPositive.
From HV Require Import Lib.Base Lib.ListX C01.Model C01.BaseProofs.
Open Scope N_scope.

(* a successful step that consumed at least d >= 1 bytes: its constant is absorbed by the slope *)
Lemma post_absorb {A} a k d c l (x : A) c' l' :
  post a k d c l (Ok x) c' l' -> 1 <= d -> post (a + k) 0 d c l (Ok x) c' l'.
Proof.
  intros [P1 P2 P3 P4 P5 P6 P7 P8 P9 P10] Hd. specialize (P6 eq_refl). constructor; try assumption.
  - intros _. exact P6.
  - rewrite N.mul_add_distr_r.
    assert (k * 1 <= k * (pos c' - pos c)) by (apply N.mul_le_mono_l; lia). lia.
Qed.

(* while <stop test> *)
Lemma ok_while_ {A} ks a k d (stop : M bool) (body : A -> M A) :
  ok 0 ks 0 stop -> (forall x, ok a k d (body x)) -> 1 <= d ->
  forall fuel x c l, wf c -> names_ok l -> (N.to_nat (dlen c) < fuel)%nat ->
  match while_ fuel stop body x c l with
  | (r, c', l') => post (a + (k + ks + 1)) (k + ks + 1) 0 c l r c' l'
  end.
Proof.
  intros Hs Hb Hd. induction fuel as [|fuel IH]; intros x c l Hc Hl Hf; [lia|].
  cbn [while_]. unfold bind at 1. cbn [tick tick_n]. unfold bind at 1.
  set (l0 := mkLog (ticks l + 1) (hops l) (names l)).
  assert (Hl0 : names_ok l0) by exact Hl.
  pose proof (Hs c l0 Hc Hl0) as S. destruct (stop c l0) as [[rs cs] ls].
  assert (S' : post 0 (ks + 1) 0 c l rs cs ls).
  { destruct S as [P1 P2 P3 P4 P5 P6 P7 P8 P9 P10]. constructor; try assumption. cbn [ticks hops l0] in *. lia. }
  clear S. destruct rs as [e|flt].
  2:{ apply (post_err_change (A:=bool) _ _ 0). refine (post_weaken _ _ _ _ _ _ _ _ _ _ _ S' _ _ _); lia. }
  pose proof (p_wf _ _ _ _ _ _ _ _ S') as Hws. pose proof (p_names _ _ _ _ _ _ _ _ S') as Hns.
  pose proof (p_pos _ _ _ _ _ _ _ _ S') as Hps.
  pose proof (p_same _ _ _ _ _ _ _ _ S') as (_ & _ & _ & Hlims & _).
  destruct e.
  - cbn [ret]. destruct S' as [P1 P2 P3 P4 P5 P6 P7 P8 P9 P10]. constructor; try assumption; try exact I.
    pose proof (N.le_0_l ((a + (k + ks + 1)) * (pos cs - pos c))). lia.
  - unfold bind at 1. pose proof (Hb x cs ls Hws Hns) as B. destruct (body x cs ls) as [[r c1] l1].
    assert (S'' : post a (ks + 1) 0 c l (Ok false) cs ls) by (refine (post_weaken _ _ _ _ _ _ _ _ _ _ _ S' _ _ _); lia).
    destruct r as [x'|flt].
    + pose proof (post_seq _ _ _ _ _ _ _ _ _ _ _ _ _ S'' B) as P1.
      apply post_absorb in P1; [|lia].
      replace (a + (ks + 1 + k)) with (a + (k + ks + 1)) in P1 by lia.
      pose proof (p_prog _ _ _ _ _ _ _ _ P1 eq_refl) as Hp.
      pose proof (p_wf _ _ _ _ _ _ _ _ P1) as Hw1. pose proof (p_names _ _ _ _ _ _ _ _ P1) as Hn1.
      pose proof (p_same _ _ _ _ _ _ _ _ P1) as (_ & _ & _ & Hlim & _).
      specialize (IH x' c1 l1 Hw1 Hn1).
      pose proof (wf_pos _ Hw1) as Hwp1.
      assert (Hf1 : (N.to_nat (dlen c1) < fuel)%nat) by (unfold dlen in *; lia).
      specialize (IH Hf1). destruct (while_ fuel stop body x' c1 l1) as [[r2 c2] l2].
      pose proof (post_seq _ _ _ _ _ _ _ _ _ _ _ _ _ P1 IH) as P.
      refine (post_weaken _ _ _ _ _ _ _ _ _ _ _ P _ _ _); lia.
    + pose proof (post_seq _ _ _ _ _ _ _ _ _ _ _ _ _ S'' B) as P1.
      apply (post_err_change (A:=A) _ _ (0 + d)).
      refine (post_weaken _ _ _ _ _ _ _ _ _ _ _ P1 _ _ _); lia.
Qed.

Lemma ok_while_m {A} ks a k d (stop : M bool) (body : A -> M A) x :
  ok 0 ks 0 stop -> (forall x, ok a k d (body x)) -> 1 <= d ->
  ok (a + (k + ks + 1)) (k + ks + 1) 0 (while_m stop body x).
Proof.
  intros Hs Hb Hd c l Hc Hl. unfold while_m. apply (ok_while_ ks a k d stop body Hs Hb Hd); try assumption. lia.
Qed.

Lemma ok_while {A} a k d (body : A -> M A) x :
  (forall x, ok a k d (body x)) -> 1 <= d -> ok (a + (k + 1)) (k + 1) 0 (while_nonempty body x).
Proof.
  intros Hb Hd. unfold while_nonempty.
  apply (ok_weaken (a + (k + 0 + 1)) (k + 0 + 1) 0); [|lia..].
  apply (ok_while_m 0 a k d); [apply ok_is_empty|exact Hb|exact Hd].
Qed.

(* for _ in 0..count *)
Lemma ok_repeat {A} a k d (body : A -> M A) :
  (forall x, ok a k d (body x)) -> 1 <= d ->
  forall count x, ok (a + (k + 1)) (k + 1) 0 (repeat_m count body x).
Proof.
  intros Hb Hd. induction count as [|n IH]; intros x c l Hc Hl; cbn [repeat_m].
  - cbn. constructor; cbn; try assumption; try apply same_refl; try exact I; try lia.
  - unfold bind at 1. cbn [tick tick_n]. unfold bind at 1.
    set (l0 := mkLog (ticks l + 1) (hops l) (names l)).
    assert (Hl0 : names_ok l0) by exact Hl.
    pose proof (Hb x c l0 Hc Hl0) as B. destruct (body x c l0) as [[r c1] l1].
    destruct r as [x'|flt].
    + assert (P1 : post a (k + 1) d c l (Ok x') c1 l1).
      { destruct B as [P1 P2 P3 P4 P5 P6 P7 P8 P9 P10]. constructor; try assumption. cbn [ticks hops l0] in *. lia. }
      apply post_absorb in P1; [|exact Hd].
      pose proof (p_wf _ _ _ _ _ _ _ _ P1) as Hw1. pose proof (p_names _ _ _ _ _ _ _ _ P1) as Hn1.
      specialize (IH x' c1 l1 Hw1 Hn1). destruct (repeat_m n body x' c1 l1) as [[r2 c2] l2].
      pose proof (post_seq _ _ _ _ _ _ _ _ _ _ _ _ _ P1 IH) as P.
      refine (post_weaken _ _ _ _ _ _ _ _ _ _ _ P _ _ _); lia.
    + destruct B as [P1 P2 P3 P4 P5 P6 P7 P8 P9 P10]. cbn [ticks hops names l0] in *.
      constructor; try assumption; try (cbn; discriminate).
      assert (a * (pos c1 - pos c) <= (a + (k + 1)) * (pos c1 - pos c)) by (apply N.mul_le_mono_r; lia). lia.
Qed.

(* the same with the constant spread over the d >= 1 bytes each iteration consumes *)
Lemma post_absorb_q {A} a k d q c l (x : A) c' l' :
  post a k d c l (Ok x) c' l' -> k <= q * d -> post (a + q) 0 d c l (Ok x) c' l'.
Proof.
  intros [P1 P2 P3 P4 P5 P6 P7 P8 P9 P10] Hq. specialize (P6 eq_refl). constructor; try assumption.
  - intros _. exact P6.
  - rewrite N.mul_add_distr_r.
    assert (q * d <= q * (pos c' - pos c)) by (apply N.mul_le_mono_l; lia). lia.
Qed.

Lemma ok_repeat_q {A} a k d q (body : A -> M A) :
  (forall x, ok a k d (body x)) -> k + 1 <= q * d ->
  forall count x, ok (a + q) (k + 1) 0 (repeat_m count body x).
Proof.
  intros Hb Hq. induction count as [|n IH]; intros x c l Hc Hl; cbn [repeat_m].
  - cbn. constructor; cbn; try assumption; try apply same_refl; try exact I; try lia.
  - unfold bind at 1. cbn [tick tick_n]. unfold bind at 1.
    set (l0 := mkLog (ticks l + 1) (hops l) (names l)).
    assert (Hl0 : names_ok l0) by exact Hl.
    pose proof (Hb x c l0 Hc Hl0) as B. destruct (body x c l0) as [[r c1] l1].
    destruct r as [x'|flt].
    + assert (P1 : post a (k + 1) d c l (Ok x') c1 l1).
      { destruct B as [P1 P2 P3 P4 P5 P6 P7 P8 P9 P10]. constructor; try assumption. cbn [ticks hops l0] in *. lia. }
      apply (post_absorb_q _ _ _ q) in P1; [|exact Hq].
      pose proof (p_wf _ _ _ _ _ _ _ _ P1) as Hw1. pose proof (p_names _ _ _ _ _ _ _ _ P1) as Hn1.
      specialize (IH x' c1 l1 Hw1 Hn1). destruct (repeat_m n body x' c1 l1) as [[r2 c2] l2].
      pose proof (post_seq _ _ _ _ _ _ _ _ _ _ _ _ _ P1 IH) as P.
      refine (post_weaken _ _ _ _ _ _ _ _ _ _ _ P _ _ _); lia.
    + destruct B as [P1 P2 P3 P4 P5 P6 P7 P8 P9 P10]. cbn [ticks hops names l0] in *.
      constructor; try assumption; try (cbn; discriminate).
      assert (a * (pos c1 - pos c) <= (a + q) * (pos c1 - pos c)) by (apply N.mul_le_mono_r; lia). lia.
Qed.

(* bind where the first step's constant is absorbed by the slope on success *)
Lemma ok_bind_abs {A B} a0 a k1 d1 k2 d2 (m : M A) (f : A -> M B) :
  ok a0 k1 d1 m -> a0 + k1 <= a -> 1 <= d1 -> k1 <= k2 ->
  (forall x, ok a k2 d2 (f x)) -> ok a k2 (d1 + d2) (bind m f).
Proof.
  intros Hm Ha Hd Hk Hf c l Hc Hl. unfold bind. specialize (Hm c l Hc Hl).
  destruct (m c l) as [[r c1] l1]. destruct r as [x|flt].
  - apply post_absorb in Hm; [|exact Hd].
    pose proof (p_wf _ _ _ _ _ _ _ _ Hm) as Hw1. pose proof (p_names _ _ _ _ _ _ _ _ Hm) as Hn1.
    specialize (Hf x c1 l1 Hw1 Hn1). destruct (f x c1 l1) as [[r2 c2] l2].
    eapply post_weaken in Hm; [|exact Ha|apply N.le_refl|apply N.le_refl].
    pose proof (post_seq _ _ _ _ _ _ _ _ _ _ _ _ _ Hm Hf) as P. exact P.
  - apply (post_err_change (A:=A) a k2 d1). refine (post_weaken _ _ _ _ _ _ _ _ _ _ _ Hm _ _ _); lia.
Qed.

(* decoders that never follow a compression pointer *)
Definition nohop {A} (m : M A) : Prop := forall c l, hops (snd (m c l)) = hops l.

Lemma nohop_ret {A} (a : A) : nohop (ret a). Proof. intros c l; reflexivity. Qed.
Lemma nohop_bad {A} f : nohop (@bad A f). Proof. intros c l; reflexivity. Qed.
Lemma nohop_fail {A} e : nohop (@fail A e). Proof. intros c l; reflexivity. Qed.
Lemma nohop_bind {A B} (m : M A) (f : A -> M B) : nohop m -> (forall x, nohop (f x)) -> nohop (bind m f).
Proof.
  intros Hm Hf c l. unfold bind. specialize (Hm c l). destruct (m c l) as [[r c1] l1]. cbn in Hm.
  destruct r as [x|flt]; [|exact Hm]. rewrite Hf. exact Hm.
Qed.
Lemma nohop_tick_n n : nohop (tick_n n). Proof. intros c l; reflexivity. Qed.
Lemma nohop_tick : nohop tick. Proof. intros c l; reflexivity. Qed.
Lemma nohop_get_len : nohop get_len. Proof. intros c l; reflexivity. Qed.
Lemma nohop_get_pos : nohop get_pos. Proof. intros c l; reflexivity. Qed.
Lemma nohop_is_empty : nohop is_empty. Proof. intros c l; reflexivity. Qed.
Lemma nohop_pop : nohop pop.
Proof. intros c l. unfold pop, bind, tick, tick_n. destruct (pos c <? lim c); [destruct (rem c)|]; reflexivity. Qed.
Lemma nohop_read_slice n : nohop (read_slice n).
Proof. intros c l. unfold read_slice, bind, tick, tick_n. destruct (n <=? dlen c); reflexivity. Qed.
Lemma nohop_read_to_end : nohop read_to_end.
Proof. intros c l. reflexivity. Qed.
Lemma nohop_read_u16 : nohop read_u16.
Proof. apply nohop_bind; [apply nohop_read_slice|intros; apply nohop_ret]. Qed.
Lemma nohop_read_chardata : nohop read_chardata.
Proof. apply nohop_bind; [apply nohop_pop|intros; apply nohop_read_slice]. Qed.
Lemma nohop_if {A} (b : bool) (m1 m2 : M A) : nohop m1 -> nohop m2 -> nohop (if b then m1 else m2).
Proof. destruct b; auto. Qed.
Lemma nohop_while_ {A} (stop : M bool) (body : A -> M A) : nohop stop -> (forall x, nohop (body x)) ->
  forall fuel x, nohop (while_ fuel stop body x).
Proof.
  intros Hs Hb. induction fuel as [|fuel IH]; intros x; cbn [while_]; [apply nohop_bad|].
  apply nohop_bind; [apply nohop_tick|intros _]. apply nohop_bind; [apply Hs|intros e].
  apply nohop_if; [apply nohop_ret|]. apply nohop_bind; [apply Hb|intros; apply IH].
Qed.
Lemma nohop_while {A} (body : A -> M A) x : (forall x, nohop (body x)) -> nohop (while_nonempty body x).
Proof. intros Hb c l. unfold while_nonempty, while_m. apply nohop_while_; [apply nohop_is_empty|exact Hb]. Qed.
Lemma nohop_read_octets k : forall acc, nohop (read_octets k acc).
Proof.
  induction k as [|k IH]; intros acc; cbn [read_octets]; [apply nohop_ret|].
  apply nohop_bind; [apply nohop_pop|intros; apply IH].
Qed.
Lemma nohop_read_aaaa : nohop read_aaaa.
Proof. unfold read_aaaa. repeat (apply nohop_bind; [apply nohop_read_slice|intros]). apply nohop_ret. Qed.

(* BinDecoder::new over bytes already read: a decoder with constant cost *)
Lemma ok_on_bytes {A} k d bs (m : M A) : ok 0 k d m -> nohop m -> ok 0 k 0 (on_bytes bs m).
Proof.
  intros Hm Hn c l Hc Hl. unfold on_bytes.
  specialize (Hm _ l (wf_fresh bs (cap c)) Hl). specialize (Hn (mkCur bs no_table (S (length bs)) (cap c) (N.of_nat (length bs)) 0 bs) l).
  destruct (m _ l) as [[r c1] l1]. cbn [snd] in Hn. destruct Hm as [P1 P2 P3 P4 P5 P6 P7 P8 P9 P10].
  constructor; try assumption; try apply same_refl; try lia.
Qed.

Lemma firstn_rem_len c n : wf c -> n <= dlen c -> length (firstn (N.to_nat n) (rem c)) = N.to_nat n.
Proof.
  intros Hc Hn. apply firstn_length_le. rewrite (rem_length c Hc).
  pose proof (wf_lim _ Hc). pose proof (wf_pos _ Hc). unfold dlen in Hn. lia.
Qed.

(* read_slice(n) then a fresh decoder over the slice: the inner work is paid by the n bytes *)
Lemma ok_sub_bytes {A} a k d n (m : M A) : ok a k d m -> nohop m -> ok a (k + 1) n (sub_bytes n m).
Proof.
  intros Hm Hn c l Hc Hl. unfold sub_bytes, bind, read_slice, bind, tick, tick_n.
  destruct (n <=? dlen c) eqn:E.
  - apply N.leb_le in E. destruct (wf_advance c n Hc E) as [Hw Hs].
    set (data := firstn (N.to_nat n) (rem c)).
    assert (Hlen : N.of_nat (length data) = n) by (unfold data; rewrite (firstn_rem_len c n Hc E); lia).
    unfold on_bytes. set (l0 := mkLog (ticks l + 1) (hops l) (names l)).
    specialize (Hm _ l0 (wf_fresh data (cap c)) Hl).
    specialize (Hn (mkCur data no_table (S (length data)) (cap c) (N.of_nat (length data)) 0 data) l0).
    destruct (m _ l0) as [[r c1] l1]. cbn [snd] in Hn. destruct Hm as [P1 P2 P3 P4 P5 P6 P7 P8 P9 P10].
    cbn [pos lim ticks hops names l0] in *.
    pose proof (wf_pos _ P1) as Hp1. destruct P2 as (_ & _ & _ & Hlim & _). cbn [lim] in Hlim.
    constructor; cbn [pos advance]; try assumption; try lia.
    + assert (pos c1 <= n) by (rewrite <- Hlen, <- Hlim; exact Hp1).
      assert (a * (pos c1 - 0) <= a * (pos c + n - pos c)). { apply N.mul_le_mono_l. lia. } lia.
  - cbn. constructor; cbn; try assumption; try apply same_refl; try exact I; try discriminate; try lia.
Qed.

(* split_off(n) + sub-decoder *)
Lemma ok_with_sub {A} a k d n (m : M A) : ok a k d m -> ok a (k + 1) n (with_sub n m).
Proof.
  intros Hm c l Hc Hl. unfold with_sub, bind, tick, tick_n.
  destruct (n <=? dlen c) eqn:E.
  - apply N.leb_le in E. destruct (wf_advance c n Hc E) as [Hw Hs].
    set (l0 := mkLog (ticks l + 1) (hops l) (names l)).
    set (cs := mkCur (buf c) (tbl c) (fuel0 c) (cap c) (pos c + n) (pos c) (rem c)).
    assert (Hcs : wf cs).
    { destruct Hc as [H1 H2 H3 H4 H5]. unfold dlen in E. constructor; cbn; try assumption; lia. }
    specialize (Hm cs l0 Hcs Hl). destruct (m cs l0) as [[r c1] l1].
    destruct Hm as [P1 P2 P3 P4 P5 P6 P7 P8 P9 P10]. cbn [pos lim ticks hops names l0 cs] in *.
    change (hcap cs) with (hcap c) in *.
    pose proof (wf_pos _ P1) as Hp1. destruct P2 as (_ & _ & _ & Hlim & _). unfold cs in Hlim. cbn [lim] in Hlim.
    constructor; cbn [pos advance]; try assumption; try lia.
    + assert (a * (pos c1 - pos c) <= a * (pos c + n - pos c)) by (apply N.mul_le_mono_l; lia). lia.
    + assert (hcap c * (pos c1 - pos c) <= hcap c * (pos c + n - pos c)) by (apply N.mul_le_mono_l; lia). lia.
  - cbn. constructor; cbn; try assumption; try apply same_refl; try exact I; try discriminate; try lia.
Qed.

Lemma ok_read_octets k : forall acc, ok 1 1 (N.of_nat k) (read_octets k acc).
Proof.
  induction k as [|k IH]; intros acc; cbn [read_octets].
  - apply (ok_weaken 0 0 0); [apply ok_ret|lia..].
  - rewrite Nat2N.inj_succ. apply (ok_weaken 1 1 (1 + N.of_nat k)); [|lia..].
    apply (ok_bind_abs 0 1 1 1 1 (N.of_nat k)); [apply ok_pop|lia..|intros; apply IH].
Qed.

Lemma ok_read_tag k : forall acc, ok 1 1 (N.of_nat k) (read_tag k acc).
(* delta of a failing branch is irrelevant *)
Proof.
  induction k as [|k IH]; intros acc; cbn [read_tag].
  - apply (ok_weaken 0 0 0); [apply ok_ret|lia..].
  - rewrite Nat2N.inj_succ. apply (ok_weaken 1 1 (1 + N.of_nat k)); [|lia..].
    apply (ok_bind_abs 0 1 1 1 1 (N.of_nat k)); [apply ok_pop|lia..|intros b].
    apply ok_if; [apply IH|].
    intros c l Hc Hl. cbn. constructor; cbn; try assumption; try apply same_refl; try exact I; try discriminate; try lia.
Qed.

(* RecordTypeSet::read_data: one tick per bitmap octet *)
Lemma ok_read_type_bitmap : ok 1 1 0 read_type_bitmap.
Proof.
  intros c l Hc Hl. unfold read_type_bitmap. unfold bind at 1. unfold read_to_end, bind, tick, tick_n.
  destruct (wf_advance c (dlen c) Hc (N.le_refl _)) as [Hw Hs].
  set (bs := firstn (N.to_nat (dlen c)) (rem c)).
  assert (Hlen : N.of_nat (length bs) = dlen c) by (unfold bs; rewrite (firstn_rem_len c _ Hc (N.le_refl _)); lia).
  cbn [ticks hops names]. rewrite Hlen.
  destruct (bm_run bs BWindow []); cbn; constructor; cbn; try assumption; try exact I; try discriminate;
    unfold dlen in *; pose proof (wf_pos _ Hc); lia.
Qed.
