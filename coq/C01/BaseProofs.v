(* C01 — invariants of the decoder model and the specification combinator [ok]:
   every model function maps well-formed decoders to well-formed decoders over the same
   packet, never panics / runs out of fuel, keeps all decoded names well-formed, and stays
   within a tick budget that is linear in the bytes it consumes plus the pointer hops made. *)
From Coq Require Import FMapPositive.
From HV Require Import Lib.Base Lib.ListX C01.Model.
Open Scope N_scope.

(* most hops a single name can take: every pointer target is < 2^14 and strictly
   decreasing; fewer when a cap is configured *)
Definition hcap (c : cur) : N :=
  match cap c with Some k => N.min k 16384 | None => 16384 end.

(* ------------------------------------------------------------------ *)
(* well-formed decoders                                                *)
(* ------------------------------------------------------------------ *)

Definition tbl_ok (c : cur) : Prop :=
  forall p s, PositiveMap.find p (tbl c) = Some s ->
              s = skipn (N.to_nat (Pos.pred_N p)) (buf c).

Record wf (c : cur) : Prop := mkWf {
  wf_pos : pos c <= lim c;
  wf_lim : lim c <= N.of_nat (length (buf c));
  wf_rem : rem c = skipn (N.to_nat (pos c)) (buf c);
  wf_tbl : tbl_ok c;
  wf_fuel : (length (buf c) < fuel0 c)%nat }.

(* same packet, same `buffer` extent *)
Definition same (c c' : cur) : Prop :=
  buf c' = buf c /\ tbl c' = tbl c /\ fuel0 c' = fuel0 c /\ lim c' = lim c /\ cap c' = cap c.

Lemma same_refl c : same c c.
Proof. repeat split. Qed.
Lemma same_trans a b c : same a b -> same b c -> same a c.
Proof. intros (A1 & A2 & A3 & A4 & A5) (B1 & B2 & B3 & B4 & B5). repeat split; congruence. Qed.

Lemma hcap_same c c' : same c c' -> hcap c' = hcap c.
Proof. intros (_ & _ & _ & _ & E). unfold hcap. now rewrite E. Qed.

Lemma pred_succ_pos n : Pos.pred_N (N.succ_pos n) = n.
Proof. destruct n as [|p]; cbn; [reflexivity|]. now rewrite Pos.pred_N_succ. Qed.

Lemma suffix_at_ok c loc : tbl_ok c -> suffix_at c loc = skipn (N.to_nat loc) (buf c).
Proof.
  intros Ht. unfold suffix_at.
  destruct (PositiveMap.find (N.succ_pos loc) (tbl c)) as [s|] eqn:E; [|reflexivity].
  rewrite (Ht _ _ E). now rewrite pred_succ_pos.
Qed.

Lemma mk_table_ok (b : list byte) : forall k i s t,
  s = skipn (N.to_nat i) b ->
  (forall p x, PositiveMap.find p t = Some x -> x = skipn (N.to_nat (Pos.pred_N p)) b) ->
  forall p x, PositiveMap.find p (mk_table k i s t) = Some x ->
              x = skipn (N.to_nat (Pos.pred_N p)) b.
Proof.
  induction k as [|k IH]; intros i s t Hs Ht p x; cbn [mk_table]; [apply Ht|].
  assert (Ht' : forall p x, PositiveMap.find p (PositiveMap.add (N.succ_pos i) s t) = Some x ->
                            x = skipn (N.to_nat (Pos.pred_N p)) b).
  { intros q y. destruct (Pos.eq_dec q (N.succ_pos i)) as [->|Hne].
    - rewrite PositiveMap.gss. intros [= <-]. now rewrite pred_succ_pos.
    - rewrite PositiveMap.gso by exact Hne. apply Ht. }
  destruct s as [|y s']; [apply Ht'|].
  apply IH; [|exact Ht'].
  replace (N.to_nat (i + 1)) with (N.to_nat i + 1)%nat by lia.
  rewrite <- skipn_skipn_add, <- Hs. reflexivity.
Qed.

Lemma wf_init_cap cp b : wf (init_cap cp b).
Proof.
  constructor; cbn.
  - lia.
  - lia.
  - reflexivity.
  - intros p s. apply mk_table_ok; [reflexivity|].
    intros q x. unfold no_table. rewrite PositiveMap.gempty. discriminate.
  - lia.
Qed.

Lemma wf_fresh bs cp : wf (mkCur bs no_table (S (length bs)) cp (N.of_nat (length bs)) 0 bs).
Proof.
  constructor; cbn; try lia; try reflexivity.
  intros q x. unfold no_table. rewrite PositiveMap.gempty. discriminate.
Qed.

Lemma wf_advance c n : wf c -> n <= dlen c -> wf (advance c n) /\ same c (advance c n).
Proof.
  intros [H1 H2 H3 H4 H5] Hn. unfold dlen in Hn. split; [|repeat split].
  constructor; cbn; try assumption; try lia.
  rewrite H3, skipn_skipn_add. f_equal. lia.
Qed.

Lemma rem_length c : wf c -> (length (rem c) = length (buf c) - N.to_nat (pos c))%nat.
Proof. intros [H1 H2 H3 H4 H5]. rewrite H3. apply skipn_length. Qed.

(* ------------------------------------------------------------------ *)
(* the specification combinator                                        *)
(* ------------------------------------------------------------------ *)

Definition names_ok (l : log) : Prop := Forall wf_name (names l).

Definition is_ok {A} (r : res A) : bool := match r with Ok _ => true | _ => false end.

Record post {A} (alpha kappa delta : N) (c : cur) (l : log)
            (r : res A) (c' : cur) (l' : log) : Prop := mkPost {
  p_wf : wf c';
  p_same : same c c';
  p_pos : pos c <= pos c';
  p_names : names_ok l';
  p_total : total r;
  p_prog : is_ok r = true -> pos c + delta <= pos c';
  p_hmono : hops l <= hops l';
  p_ticks : ticks l' + 6 * hops l <= ticks l + 6 * hops l' + alpha * (pos c' - pos c) + kappa;
  p_hops : hops l' <= hops l + hcap c * (pos c' - pos c) + (if is_ok r then 0 else hcap c);
  (* hops are only made while reading names: at most hcap per name decoded, plus one name
     that failed *)
  p_hnames : hops l' + hcap c * N.of_nat (length (names l)) <=
             hops l + hcap c * N.of_nat (length (names l')) + (if is_ok r then 0 else hcap c) }.

(* [ok alpha kappa delta m]: on every well-formed decoder, [m] ... costs at most
   alpha * consumed + kappa ticks beyond 6 per hop, and consumes at least delta bytes when it
   succeeds *)
Definition ok {A} (alpha kappa delta : N) (m : M A) : Prop :=
  forall c l, wf c -> names_ok l ->
    match m c l with (r, c', l') => post alpha kappa delta c l r c' l' end.


Lemma post_weaken {A} a k d a' k' d' c l (r : res A) c' l' :
  post a k d c l r c' l' -> a <= a' -> k <= k' -> d' <= d -> post a' k' d' c l r c' l'.
Proof.
  intros [P1 P2 P3 P4 P5 P6 P7 P8 P9 P10] Ha Hk Hd. constructor; try assumption.
  - intros E. specialize (P6 E). lia.
  - assert (a * (pos c' - pos c) <= a' * (pos c' - pos c)) by (apply N.mul_le_mono_r; exact Ha). lia.
Qed.

(* sequencing of posts *)
Lemma post_seq {A B} a k1 d1 k2 d2 c l (x : A) c1 l1 (r : res B) c2 l2 :
  post a k1 d1 c l (Ok x) c1 l1 -> post a k2 d2 c1 l1 r c2 l2 ->
  post a (k1 + k2) (d1 + d2) c l r c2 l2.
Proof.
  intros [P1 P2 P3 P4 P5 P6 P7 P8 P9 P10] [Q1 Q2 Q3 Q4 Q5 Q6 Q7 Q8 Q9 Q10]. cbn in P6, P9, P10.
  rewrite (hcap_same _ _ P2) in Q9, Q10.
  constructor; try assumption.
  - eapply same_trans; eassumption.
  - lia.
  - intros E. specialize (Q6 E). specialize (P6 eq_refl). lia.
  - lia.
  - assert (a * (pos c2 - pos c) = a * (pos c1 - pos c) + a * (pos c2 - pos c1)) by
      (rewrite <- N.mul_add_distr_l; f_equal; lia). lia.
  - assert (hcap c * (pos c2 - pos c) = hcap c * (pos c1 - pos c) + hcap c * (pos c2 - pos c1)) by
      (rewrite <- N.mul_add_distr_l; f_equal; lia). lia.
  - lia.
Qed.

Lemma post_err_change {A B} a k d d' c l (f : fault) c' l' :
  post (A:=A) a k d c l (Bad f) c' l' -> post (A:=B) a k d' c l (Bad f) c' l'.
Proof. intros [P1 P2 P3 P4 P5 P6 P7 P8 P9 P10]. constructor; try assumption. cbn. discriminate. Qed.

Ltac triv_post :=
  constructor; cbn; try assumption; try apply same_refl; try exact I; try discriminate;
  try lia.

Lemma ok_weaken {A} a k d a' k' d' (m : M A) :
  ok a k d m -> a <= a' -> k <= k' -> d' <= d -> ok a' k' d' m.
Proof.
  intros Hm Ha Hk Hd c l Hc Hl. specialize (Hm c l Hc Hl).
  destruct (m c l) as [[r c'] l']. eapply post_weaken; eassumption.
Qed.

Lemma ok_ret {A} (a : A) : ok 0 0 0 (ret a).
Proof. intros c l Hc Hl. cbn. triv_post. Qed.

Lemma ok_fail {A} e d : ok 0 0 d (@fail A e).
Proof. intros c l Hc Hl. cbn. triv_post. Qed.

Lemma ok_bind {A B} a k1 d1 k2 d2 (m : M A) (f : A -> M B) :
  ok a k1 d1 m -> (forall x, ok a k2 d2 (f x)) -> ok a (k1 + k2) (d1 + d2) (bind m f).
Proof.
  intros Hm Hf c l Hc Hl. unfold bind. specialize (Hm c l Hc Hl).
  destruct (m c l) as [[r c1] l1]. destruct r as [x|flt].
  - specialize (Hf x c1 l1 (p_wf _ _ _ _ _ _ _ _ Hm) (p_names _ _ _ _ _ _ _ _ Hm)).
    destruct (f x c1 l1) as [[r2 c2] l2]. eapply post_seq; eassumption.
  - apply (post_err_change (A:=A) _ _ d1). refine (post_weaken _ _ _ _ _ _ _ _ _ _ _ Hm _ _ _); lia.
Qed.

Lemma ok_if {A} a k d (b : bool) (m1 m2 : M A) :
  ok a k d m1 -> ok a k d m2 -> ok a k d (if b then m1 else m2).
Proof. destruct b; auto. Qed.

(* ------------------------------------------------------------------ *)
(* primitives                                                          *)
(* ------------------------------------------------------------------ *)


Lemma ok_tick_n n : ok 0 n 0 (tick_n n).
Proof. intros c l Hc Hl. cbn. triv_post. Qed.
Lemma ok_tick : ok 0 1 0 tick.
Proof. apply ok_tick_n. Qed.
Lemma ok_get_len : ok 0 0 0 get_len.
Proof. intros c l Hc Hl. cbn. triv_post. Qed.
Lemma ok_get_pos : ok 0 0 0 get_pos.
Proof. intros c l Hc Hl. cbn. triv_post. Qed.
Lemma ok_is_empty : ok 0 0 0 is_empty.
Proof. intros c l Hc Hl. cbn. triv_post. Qed.
Lemma ok_log_name n : wf_name n -> ok 0 0 0 (log_name n).
Proof. intros Hn c l Hc Hl. cbn. triv_post. constructor; assumption. Qed.

Lemma ok_pop : ok 0 1 1 pop.
Proof.
  intros c l Hc Hl. unfold pop, bind, tick, tick_n.
  destruct (pos c <? lim c) eqn:E.
  - apply N.ltb_lt in E. destruct (rem c) as [|b r] eqn:Er.
    + triv_post.
    + assert (Hw : wf (mkCur (buf c) (tbl c) (fuel0 c) (cap c) (lim c) (pos c + 1) r)).
      { destruct Hc as [H1 H2 H3 H4 H5]. constructor; cbn; try assumption; try lia.
        replace (N.to_nat (pos c + 1)) with (N.to_nat (pos c) + 1)%nat by lia.
        rewrite <- skipn_skipn_add, <- H3, Er. reflexivity. }
      constructor; cbn; try assumption; try exact I; try (repeat split; fail); try lia.
  - triv_post.
Qed.

Lemma ok_peek : ok 0 1 0 peek.
Proof.
  intros c l Hc Hl. unfold peek, bind, tick, tick_n.
  destruct (pos c <? lim c); [destruct (rem c)|]; triv_post.
Qed.

Lemma ok_read_slice n : ok 0 1 n (read_slice n).
Proof.
  intros c l Hc Hl. unfold read_slice, bind, tick, tick_n.
  destruct (n <=? dlen c) eqn:E.
  - apply N.leb_le in E. destruct (wf_advance c n Hc E) as [Hw Hs].
    constructor; cbn; try assumption; try exact I; try lia.
  - triv_post.
Qed.

Lemma ok_read_to_end : ok 0 1 0 read_to_end.
Proof.
  intros c l Hc Hl. unfold read_to_end, bind, tick, tick_n.
  destruct (wf_advance c (dlen c) Hc (N.le_refl _)) as [Hw Hs].
  constructor; cbn; try assumption; try exact I; try lia.
Qed.

Lemma ok_read_u8 : ok 0 1 1 read_u8.
Proof. apply ok_pop. Qed.

Lemma ok_read_u16 : ok 0 1 2 read_u16.
Proof.
  unfold read_u16. eapply ok_weaken.
  - eapply ok_bind; [apply ok_read_slice|intros; apply ok_ret].
  - lia.
  - lia.
  - lia.
Qed.

Lemma ok_read_u32 : ok 0 1 4 read_u32.
Proof.
  unfold read_u32. eapply ok_weaken.
  - eapply ok_bind; [apply ok_read_slice|intros; apply ok_ret].
  - lia.
  - lia.
  - lia.
Qed.

Lemma ok_read_chardata : ok 0 2 1 read_chardata.
Proof.
  unfold read_chardata. eapply ok_weaken.
  - eapply ok_bind; [apply ok_pop|intros n; apply (ok_weaken 0 1 n 0 1 0); [apply ok_read_slice|lia..]].
  - lia.
  - lia.
  - lia.
Qed.
