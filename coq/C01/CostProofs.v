(* C01 — the time clause.  [p_lin] is the linear budget that holds when no name may follow more
   than 127 compression pointers; the code as it is (no cap) violates it: witness below
   (finding F1), evaluated on the model by vm_compute and replayed on the real decoder by the
   harness (family f1-chain, where the blow-up is measured in wall-clock time). *)
From HV Require Import Lib.Base C01.Model C01.BaseProofs C01.MsgProofs.
Open Scope N_scope.

Definition cap127 : option N := Some 127.

(* ticks + hops <= 165 |b| + 5298 + 7 * 127 * (names decoded + 1) *)
Definition run_log (cp : option N) (e : entry) (b : list byte) : log := snd (run_cap cp e b).
Definition n_names (l : log) : N := N.of_nat (length (names l)).
Definition p_lin (cp : option N) (e : entry) (b : list byte) : Prop :=
  cost (run_log cp e b) <= 165 * N.of_nat (length b) + 5298 + 889 * (n_names (run_log cp e b) + 1).

Lemma run_cap_post cp e b :
  match run_cap cp e b with (r, c', l') => post AS KM 0 (init_cap cp b) log0 r c' l' end.
Proof. unfold run_cap. apply ok_entry; [apply wf_init_cap|constructor]. Qed.

Lemma consumed_le cp e b :
  match run_cap cp e b with (_, c, _) => pos c <= N.of_nat (length b) end.
Proof.
  pose proof (run_cap_post cp e b) as P. destruct (run_cap cp e b) as [[r c] l].
  pose proof (wf_pos _ (p_wf _ _ _ _ _ _ _ _ P)) as H1.
  destruct (p_same _ _ _ _ _ _ _ _ P) as (_ & _ & _ & H2 & _). cbn in H2. lia.
Qed.

Lemma ticks_le cp e b :
  match run_cap cp e b with (_, _, l) => ticks l <= 165 * N.of_nat (length b) + 5298 + 6 * hops l end.
Proof.
  pose proof (run_cap_post cp e b) as P. pose proof (consumed_le cp e b) as C.
  destruct (run_cap cp e b) as [[r c] l].
  pose proof (p_ticks _ _ _ _ _ _ _ _ P) as T. cbn in T.
  assert (AS * (pos c - 0) <= AS * N.of_nat (length b)) by (apply N.mul_le_mono_l; lia).
  change AS with 165 in *. change KM with 5298 in *. lia.
Qed.

Lemma hops_per_name cp e b :
  match run_cap cp e b with
  | (_, _, l) => hops l <= hcap (init_cap cp b) * (N.of_nat (length (names l)) + 1)
  end.
Proof.
  pose proof (run_cap_post cp e b) as P. destruct (run_cap cp e b) as [[r c] l].
  pose proof (p_hnames _ _ _ _ _ _ _ _ P) as T. cbn [names log0 length hops] in T.
  rewrite N.mul_add_distr_l. destruct (is_ok r); lia.
Qed.

Lemma p_lin_capped e b : p_lin cap127 e b.
Proof.
  unfold p_lin, run_log, n_names. pose proof (ticks_le cap127 e b) as T. pose proof (hops_per_name cap127 e b) as Hn.
  destruct (run_cap cap127 e b) as [[r c] l]. cbn [snd]. unfold cost.
  change (hcap (init_cap cap127 b)) with 127 in Hn. lia.
Qed.

(* --- the witness: one NULL record whose RDATA is a chain of h pointers, then n records whose
   owner is a pointer to the end of the chain (UPDATE opcode, so RDLENGTH 0 is accepted) --- *)
Definition w16 (v : N) : list byte := [v / 256; v mod 256].
Fixpoint chain (h : nat) (i base : N) : list byte :=
  match h with
  | O => []
  | S h' => w16 (49152 + (if i =? 0 then base else base + 1 + 2 * (i - 1))) ++ chain h' (i + 1) base
  end.
Fixpoint owners (n : nat) (target : N) : list byte :=
  match n with
  | O => []
  | S n' => w16 (49152 + target) ++ [0; 1; 0; 254; 0; 0; 0; 0; 0; 0] ++ owners n' target
  end.
Definition f1_message (h n : nat) : list byte :=
  let hn := N.of_nat h in
  [18; 52; 40; 0; 0; 0; 0; 0] ++ w16 (N.of_nat n + 1) ++ [0; 0] ++
  [0; 0; 10; 0; 1; 0; 0; 0; 0] ++ w16 (1 + 2 * hn) ++
  [0] ++ chain h 0 23 ++ owners n (23 + 1 + 2 * (hn - 1)).

Definition f1_witness : list byte := f1_message 2000 400.

Definition over_budget (cp : option N) (e : entry) (b : list byte) : bool :=
  165 * N.of_nat (length b) + 5298 + 889 * (n_names (run_log cp e b) + 1) <? cost (run_log cp e b).

Lemma f1_witness_over :
  (N.of_nat (length f1_witness) <=? 65535) && over_budget None EMessage f1_witness = true.
Proof. vm_compute. reflexivity. Qed.

Lemma over_budget_spec cp e b : over_budget cp e b = true -> ~ p_lin cp e b.
Proof. unfold over_budget, p_lin. intros W. apply N.ltb_lt in W. lia. Qed.

Lemma f1_refutes : N.of_nat (length f1_witness) <= 65535 /\ ~ p_lin None EMessage f1_witness.
Proof.
  pose proof f1_witness_over as W. apply andb_true_iff in W. destruct W as [W1 W2].
  split; [apply N.leb_le; exact W1|exact (over_budget_spec _ _ _ W2)].
Qed.

(* --- the known class: inputs on which the cap changes the work done --- *)
Definition work (cp : option N) (e : entry) (b : list byte) : N * N * N :=
  let l := run_log cp e b in (ticks l, hops l, n_names l).

Definition known_f1 (e : entry) (b : list byte) : Prop := work None e b <> work cap127 e b.

Lemma triple_dec (x y : N * N * N) : {x = y} + {x <> y}.
Proof. repeat decide equality. Qed.

Lemma p_lin_guarded e b : ~ known_f1 e b -> p_lin None e b.
Proof.
  intros Hk. unfold known_f1 in Hk. destruct (triple_dec (work None e b) (work cap127 e b)) as [E|N]; [|contradiction].
  pose proof (p_lin_capped e b) as P. unfold p_lin, work in *. cbv zeta in E.
  injection E as E1 E2 E3. unfold cost in *. rewrite E1, E2, E3. exact P.
Qed.

(* --- non-vacuity of the guard, and the witness is in the known class (evaluated here so that
   Props.v stays cheap to re-check) --- *)
Definition small_msg : list byte :=
  [0;1; 1;0; 0;1; 0;1; 0;0; 0;0;  3;119;119;119;0; 0;1; 0;1;  192;12; 0;1; 0;1; 0;0;0;60; 0;4; 1;2;3;4].

Lemma small_msg_not_known : ~ known_f1 EMessage small_msg /\ hops (run_log None EMessage small_msg) = 1.
Proof. split; [intros H; apply H; vm_compute; reflexivity|vm_compute; reflexivity]. Qed.

Lemma work_differs : (let '(_, h1, _) := work None EMessage f1_witness in
                      let '(_, h2, _) := work cap127 EMessage f1_witness in N.eqb h1 h2) = false.
Proof. vm_compute. reflexivity. Qed.

Lemma witness_known : known_f1 EMessage f1_witness.
Proof.
  unfold known_f1. intros E. pose proof work_differs as W. rewrite E in W.
  destruct (work cap127 EMessage f1_witness) as [[t h] n]. rewrite N.eqb_refl in W. discriminate.
Qed.
