(* C01 — property theorems.  [run e b] is the model of decoding the byte string [b] through
   entry point [e] (message, server request, record, name, RDATA of type t); it returns the
   outcome, the final decoder and the log (ticks, pointer hops, every name decoded).
   All statements are for every byte string (no length bound is needed). *)
From HV Require Import Lib.Base C01.Model C01.BaseProofs C01.MsgProofs.
Open Scope N_scope.

Lemma run_post e b :
  match run e b with (r, c', l') => post AS KM 0 (init b) log0 r c' l' end.
Proof. unfold run. apply ok_entry; [apply wf_init|constructor]. Qed.

(* Totality: every entry point, on every input, returns a value or an error: it never
   reaches the (one) slice expression that could panic, never exhausts the fuel of any loop
   (no unbounded pointer following), and never leaves the modelled code. *)
Theorem C01_decode_total : forall e b,
  match run e b with (r, _, _) => total r end.
Proof. intros e b. pose proof (run_post e b) as P. destruct (run e b) as [[r c] l]. exact (p_total _ _ _ _ _ _ _ _ P). Qed.
Print Assumptions C01_decode_total.

(* Every name decoded along the way (also inside a message that is later rejected) has labels
   of 1..63 octets and an uncompressed wire length of at most 255 octets. *)
Theorem C01_names_bounded : forall e b,
  match run e b with (_, _, l) => Forall wf_name (names l) end.
Proof. intros e b. pose proof (run_post e b) as P. destruct (run e b) as [[r c] l]. exact (p_names _ _ _ _ _ _ _ _ P). Qed.
Print Assumptions C01_names_bounded.

(* The decoder never reads past the input: the final index is within the byte string. *)
Theorem C01_consumed_within_input : forall e b,
  match run e b with (_, c, _) => pos c <= N.of_nat (length b) end.
Proof.
  intros e b. pose proof (run_post e b) as P. destruct (run e b) as [[r c] l].
  pose proof (wf_pos _ (p_wf _ _ _ _ _ _ _ _ P)) as H1.
  destruct (p_same _ _ _ _ _ _ _ _ P) as (_ & _ & _ & H2). cbn in H2. lia.
Qed.
Print Assumptions C01_consumed_within_input.

(* Time: ticks (one per primitive read / loop iteration) are linear in the input length,
   apart from 6 ticks per compression pointer followed. *)
Theorem C01_ticks_linear_plus_hops : forall e b,
  match run e b with (_, _, l) => ticks l <= 1588 * N.of_nat (length b) + 5298 + 6 * hops l end.
Proof.
  intros e b. pose proof (run_post e b) as P. destruct (run e b) as [[r c] l].
  pose proof (wf_pos _ (p_wf _ _ _ _ _ _ _ _ P)) as H1.
  destruct (p_same _ _ _ _ _ _ _ _ P) as (_ & _ & _ & H2). cbn in H2.
  pose proof (p_ticks _ _ _ _ _ _ _ _ P) as T. cbn in T.
  assert (AS * (pos c - 0) <= AS * N.of_nat (length b)) by (apply N.mul_le_mono_l; lia).
  change AS with 1588 in *. change KM with 5298 in *. lia.
Qed.
Print Assumptions C01_ticks_linear_plus_hops.

(* Pointer hops: at most 16384 per name (targets are below 2^14 and strictly decreasing),
   and a name is read at most once per input byte (plus the one that fails). *)
Theorem C01_hops_bounded : forall e b,
  match run e b with (_, _, l) => hops l <= 16384 * (N.of_nat (length b) + 1) end.
Proof.
  intros e b. pose proof (run_post e b) as P. destruct (run e b) as [[r c] l].
  pose proof (wf_pos _ (p_wf _ _ _ _ _ _ _ _ P)) as H1.
  destruct (p_same _ _ _ _ _ _ _ _ P) as (_ & _ & _ & H2). cbn in H2.
  pose proof (p_hops _ _ _ _ _ _ _ _ P) as T. cbn in T.
  assert (Hmax * (pos c - 0) <= Hmax * N.of_nat (length b)) by (apply N.mul_le_mono_l; lia).
  change Hmax with 16384 in *. destruct (is_ok r); lia.
Qed.
Print Assumptions C01_hops_bounded.

(* Non-vacuity / sanity: a compressed name is decoded through two pointers. *)
Example C01_example_name :
  let b := [1; 97; 0; 192; 0; 192; 3] in
  fst (fst (entry_m EName (mkCur b no_table 8 7 5 [192; 3]) log0)) = Ok [1; 97; 0].
Proof. vm_compute. reflexivity. Qed.
Example C01_example_self_pointer : fst (fst (run EName [192; 0])) = Err EPtrNotPrior.
Proof. vm_compute. reflexivity. Qed.
