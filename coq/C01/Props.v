(* C01 — property theorems.
   [run_cap cp e b] is the model of decoding the byte string [b] through entry point [e]
   (message, server request, record, name, RDATA of type t) when a name may follow at most
   [cp] compression pointers: cp = None is the code as it is today, cp = Some 127 the code
   with the candidate repair of finding F1; [run] = [run_cap hop_cap] is the one tied to the
   implementation by the correspondence check.  A run returns the outcome, the final decoder
   and the log (ticks, pointer hops, every name decoded).  All statements hold for every byte
   string: no length bound is needed. *)
From HV Require Import Lib.Base C01.Model C01.BaseProofs C01.MsgProofs C01.CostProofs.
Open Scope N_scope.

(* Totality: every entry point, on every input, returns a value or an error: it never
   reaches the slice expression that could panic (`&buffer[index_at..]` in clone), never
   exhausts the fuel of any loop (no unbounded pointer following), and never leaves the
   modelled code. *)
Theorem C01_decode_total : forall cp e b,
  match run_cap cp e b with (r, _, _) => total r end.
Proof.
  intros cp e b. pose proof (run_cap_post cp e b) as P. destruct (run_cap cp e b) as [[r c] l].
  exact (p_total _ _ _ _ _ _ _ _ P).
Qed.
Print Assumptions C01_decode_total.

(* Every name decoded along the way (also inside a message that is later rejected) has labels
   of 1..63 octets and an uncompressed wire length of at most 255 octets. *)
Theorem C01_names_bounded : forall cp e b,
  match run_cap cp e b with (_, _, l) => Forall wf_name (names l) end.
Proof.
  intros cp e b. pose proof (run_cap_post cp e b) as P. destruct (run_cap cp e b) as [[r c] l].
  exact (p_names _ _ _ _ _ _ _ _ P).
Qed.
Print Assumptions C01_names_bounded.

(* The decoder never reads past the input: the final index is within the byte string. *)
Theorem C01_consumed_within_input : forall cp e b,
  match run_cap cp e b with (_, c, _) => pos c <= N.of_nat (length b) end.
Proof. exact consumed_le. Qed.
Print Assumptions C01_consumed_within_input.

(* Time, part 1: ticks (one per primitive read / loop iteration) are linear in the input
   length, apart from 6 ticks per compression pointer followed. *)
Theorem C01_ticks_linear_plus_hops : forall cp e b,
  match run_cap cp e b with (_, _, l) => ticks l <= 165 * N.of_nat (length b) + 5298 + 6 * hops l end.
Proof. exact ticks_le. Qed.
Print Assumptions C01_ticks_linear_plus_hops.

(* Time, part 2: pointer hops are only made while reading names, at most 16384 per name
   (targets are below 2^14 and strictly decreasing; at most the cap when one is configured),
   so at most that many per name decoded plus the one name that fails. *)
Theorem C01_hops_per_name : forall cp e b,
  match run_cap cp e b with
  | (_, _, l) => hops l <= (match cp with Some k => N.min k 16384 | None => 16384 end)
                           * (N.of_nat (length (names l)) + 1)
  end.
Proof. exact hops_per_name. Qed.
Print Assumptions C01_hops_per_name.

(* Time, the clause of the property ("time proportional to the input length"), as the budget
     ticks + hops <= 165 |b| + 5298 + 7 * 127 * (names decoded + 1)        [p_lin]
   (a name is at least one byte, so this is linear in |b|).
   - refuted for the code as it is: a 8835-byte UPDATE message costs more (finding F1);
   - holds for every input outside the known class (inputs on which a 127-pointer cap would
     change the work done: some name follows more than 127 pointers);
   - holds for every input once the cap is in place (the candidate repair). *)
Theorem C01_time_linear_refuted :
  exists b, N.of_nat (length b) <= 65535 /\ ~ p_lin None EMessage b.
Proof. exists f1_witness. exact f1_refutes. Qed.
Print Assumptions C01_time_linear_refuted.

Theorem C01_time_linear_guarded : forall e b, ~ known_f1 e b -> p_lin None e b.
Proof. exact p_lin_guarded. Qed.
Print Assumptions C01_time_linear_guarded.

Theorem C01_time_linear_with_cap : forall e b, p_lin (Some 127) e b.
Proof. exact p_lin_capped. Qed.
Print Assumptions C01_time_linear_with_cap.

(* Non-vacuity. *)
(* a compressed name decoded through two pointers; a self-pointer is rejected *)
Example C01_example_name :
  let b := [1; 97; 0; 192; 0; 192; 3] in
  fst (fst (entry_m EName (mkCur b no_table 8 None 7 5 [192; 3]) log0)) = Ok [1; 97; 0].
Proof. vm_compute. reflexivity. Qed.
Example C01_example_self_pointer : fst (fst (run EName [192; 0])) = Err EPtrNotPrior.
Proof. vm_compute. reflexivity. Qed.
(* the guard of C01_time_linear_guarded is satisfiable by a message that follows a pointer,
   and the witness of the refutation is in the known class *)
Example C01_guard_satisfiable :
  ~ known_f1 EMessage small_msg /\ hops (run_log None EMessage small_msg) = 1.
Proof. exact small_msg_not_known. Qed.
Example C01_witness_is_known : known_f1 EMessage f1_witness.
Proof. exact witness_known. Qed.
