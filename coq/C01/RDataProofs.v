(* C01 — every RDATA decoder meets the specification [ok] at one common slope. *)
From Coq Require Import FMapPositive.
From HV Require Import Lib.Base Lib.ListX C01.Model C01.BaseProofs C01.NameProofs C01.CombProofs.
Open Scope N_scope.

(* slope-generic versions of the primitive lemmas: usable at any slope a *)
Lemma okA {A} a a0 k d (m : M A) : ok a0 k d m -> a0 <= a -> ok a k d m.
Proof. intros Hm Ha. apply (ok_weaken a0 k d); [exact Hm|exact Ha|lia|lia]. Qed.

Lemma ok_if_fail_l {A} a k d (b : bool) e (m : M A) : ok a k d m -> ok a k d (if b then fail e else m).
Proof. intros Hm. destruct b; [|exact Hm]. apply (ok_weaken 0 0 d); [apply ok_fail|lia..]. Qed.
Lemma ok_if_fail_r {A} a k d (b : bool) e (m : M A) : ok a k d m -> ok a k d (if b then m else fail e).
Proof. intros Hm. destruct b; [exact Hm|]. apply (ok_weaken 0 0 d); [apply ok_fail|lia..]. Qed.
Lemma ok_if_max {A} a k1 d1 k2 d2 (b : bool) (m1 m2 : M A) :
  ok a k1 d1 m1 -> ok a k2 d2 m2 -> ok a (N.max k1 k2) (N.min d1 d2) (if b then m1 else m2).
Proof. intros H1 H2. destruct b; [apply (ok_weaken a k1 d1)|apply (ok_weaken a k2 d2)]; try assumption; lia. Qed.

Ltac ok_prim a := idtac;
  first
  [ apply (okA a 0 _ _ _ ok_pop); lia
  | apply (okA a 0 _ _ _ ok_read_u8); lia
  | apply (okA a 0 _ _ _ ok_read_u16); lia
  | apply (okA a 0 _ _ _ ok_read_u32); lia
  | apply (okA a 0 _ _ _ (ok_read_slice _)); lia
  | apply (okA a 0 _ _ _ ok_read_to_end); lia
  | apply (okA a 0 _ _ _ ok_read_chardata); lia
  | apply (okA a 0 _ _ _ ok_read_name); lia
  | apply (okA a 0 _ _ _ ok_get_len); lia
  | apply (okA a 0 _ _ _ ok_get_pos); lia
  | apply (okA a 0 _ _ _ ok_peek); lia
  | apply (okA a 0 _ _ _ ok_tick); lia
  | apply (okA a 0 _ _ _ (ok_ret _)); lia
  | apply (okA a 0 _ _ _ (ok_fail _ _)); lia
  | apply (okA a 1 _ _ _ ok_read_type_bitmap); lia
  | apply (okA a 1 _ _ _ (ok_read_octets _ _)); lia
  | apply (okA a 1 _ _ _ (ok_read_tag _ _)); lia
  | apply (ok_weaken 0 1 _ a 1 0 _ (ok_read_slice _)); lia
  | apply (ok_weaken 1 1 _ a 1 0 _ (ok_read_octets _ _)); lia
  | apply (ok_weaken 1 1 _ a 1 0 _ (ok_read_tag _ _)); lia ].

Ltac ok_go a := idtac;
  lazymatch goal with
  | |- ok _ _ _ (let _ := _ in _) => cbv zeta; ok_go a
  | |- ok _ _ _ (bind _ _) => eapply ok_bind; [ok_go a | intros; ok_go a]
  | |- ok _ _ _ (if _ then fail _ else _) => apply ok_if_fail_l; ok_go a
  | |- ok _ _ _ (if _ then _ else fail _) => apply ok_if_fail_r; ok_go a
  | |- ok _ _ _ (if _ then _ else _) => eapply ok_if_max; ok_go a
  | |- _ => ok_prim a
  end.


Lemma ok_if_fail_l_cond {A} a k d (b : bool) e (m : M A) :
  (b = false -> ok a k d m) -> ok a k d (if b then fail e else m).
Proof. intros Hm. destruct b; [|auto]. apply (ok_weaken 0 0 d); [apply ok_fail|lia..]. Qed.

Lemma ok_read_octets_const k : forall acc, ok 0 (N.of_nat k) (N.of_nat k) (read_octets k acc).
Proof.
  induction k as [|k IH]; intros acc; cbn [read_octets]; [apply ok_ret|].
  rewrite Nat2N.inj_succ. apply (ok_weaken 0 (1 + N.of_nat k) (1 + N.of_nat k)); [|lia..].
  eapply ok_bind; [apply ok_pop|intros; apply IH].
Qed.

Lemma ok_read_aaaa : ok 0 8 16 read_aaaa.
Proof. eapply ok_weaken; [unfold read_aaaa; ok_go 0|lia..]. Qed.

Lemma nohop_read_client_subnet : nohop read_client_subnet.
Proof.
  unfold read_client_subnet. apply nohop_bind; [apply nohop_read_u16|intros family].
  apply nohop_if; [|apply nohop_fail].
  apply nohop_bind; [apply nohop_pop|intros sp]. apply nohop_bind; [apply nohop_pop|intros sc].
  apply nohop_if; [apply nohop_fail|]. apply nohop_bind; [apply nohop_read_octets|intros; apply nohop_ret].
Qed.

Tactic Notation "ok_by" tactic3(t) := eapply ok_weaken; [t | lia | lia | lia].

Lemma ok_read_client_subnet : ok 0 19 0 read_client_subnet.
Proof.
  unfold read_client_subnet.
  ok_by (eapply ok_bind; [apply ok_read_u16|intros family];
    apply ok_if_fail_r;
    eapply ok_bind; [apply ok_pop|intros sp]; eapply ok_bind; [apply ok_pop|intros sc];
    apply ok_if_fail_l_cond; intros Hw; apply N.ltb_ge in Hw;
    eapply ok_bind; [|intros; apply ok_ret];
    apply (ok_weaken 0 (N.of_nat (N.to_nat (subnet_addr_len sp))) (N.of_nat (N.to_nat (subnet_addr_len sp))) 0 16 0);
      [apply ok_read_octets_const|lia|destruct (family =? 1); lia|lia]).
Qed.

Lemma ok_edns_option code data : ok 0 19 0 (edns_option code data).
Proof.
  unfold edns_option.
  ok_by (eapply ok_if_max;
    [eapply ok_bind; [eapply ok_on_bytes; [apply ok_read_client_subnet|apply nohop_read_client_subnet]|intros; apply ok_ret]
    |eapply ok_if_max; apply ok_ret]).
Qed.

Lemma ok_opt_step rdlen sa : ok 0 20 1 (opt_step rdlen sa).
Proof.
  destruct sa as [st acc]. destruct st as [|code|code len coll]; cbn [opt_step].
  - ok_by (ok_go 0).
  - ok_by (eapply ok_bind; [apply ok_read_u16|intros len];
      apply ok_if_fail_l; eapply ok_if_max;
      [eapply ok_bind; [apply ok_edns_option|intros; apply ok_ret]|apply ok_ret]).
  - ok_by (eapply ok_bind; [apply ok_pop|intros b]; eapply ok_if_max;
      [eapply ok_bind; [apply ok_edns_option|intros; apply ok_ret]|apply ok_ret]).
Qed.

Lemma ok_read_opt : ok 21 21 0 read_opt.
Proof.
  unfold read_opt.
  ok_by (eapply ok_bind; [apply (okA 21 0 _ _ _ ok_get_len); lia|intros rdlen];
    eapply ok_bind; [apply (ok_while 0 20 1); [intros; apply ok_opt_step|lia]|intros sa];
    destruct (fst sa); apply (okA 21 0 _ _ _ (ok_ret _)); lia).
Qed.

Lemma ok_read_txt : ok 3 3 0 read_txt.
Proof.
  unfold read_txt.
  ok_by (eapply ok_bind; [|intros; apply (okA 3 0 _ _ _ (ok_ret _)); lia];
    apply (ok_while 0 2 1); [|lia]; intros acc; ok_by (ok_go 0)).
Qed.

(* ---- SVCB ---- *)
Lemma nohop_svcb_value key len : nohop (svcb_value key len).
Proof.
  unfold svcb_value.
  repeat (apply nohop_if).
  - apply nohop_bind; [apply nohop_while; intros; apply nohop_bind; [apply nohop_read_u16|intros; apply nohop_ret]|].
    intros ks; destruct ks; [apply nohop_fail|apply nohop_ret].
  - apply nohop_bind; [apply nohop_while; intros; apply nohop_bind; [apply nohop_read_chardata|intros; apply nohop_if; [apply nohop_ret|apply nohop_fail]]|].
    intros ss; destruct ss; [apply nohop_fail|apply nohop_ret].
  - apply nohop_fail.
  - apply nohop_ret.
  - apply nohop_fail.
  - apply nohop_bind; [apply nohop_read_u16|intros; apply nohop_ret].
  - apply nohop_bind; [apply nohop_while; intros; apply nohop_bind; [apply nohop_read_octets|intros; apply nohop_ret]|intros; apply nohop_ret].
  - apply nohop_bind; [apply nohop_while; intros; apply nohop_bind; [apply nohop_read_aaaa|intros; apply nohop_ret]|intros; apply nohop_ret].
  - apply nohop_bind; [apply nohop_read_to_end|intros; apply nohop_ret].
Qed.

Lemma ok_svcb_value key len : ok 9 9 0 (svcb_value key len).
Proof.
  unfold svcb_value.
  repeat (apply ok_if).
  - ok_by (eapply ok_bind; [apply (ok_weaken 2 2 0 9 9 0); [apply (ok_while 0 1 2); [intros; ok_by (ok_go 0)|lia]|lia..]|intros ks];
           destruct ks; [apply (okA 9 0 _ _ _ (ok_fail _ 0)); lia|apply (okA 9 0 _ _ _ (ok_ret _)); lia]).
  - ok_by (eapply ok_bind; [apply (ok_weaken 3 3 0 9 9 0); [apply (ok_while 0 2 1); [intros; ok_by (ok_go 0)|lia]|lia..]|intros ss];
           destruct ss; [apply (okA 9 0 _ _ _ (ok_fail _ 0)); lia|apply (okA 9 0 _ _ _ (ok_ret _)); lia]).
  - ok_by (apply (okA 9 0 _ _ _ (ok_fail _ 0)); lia).
  - ok_by (apply (okA 9 0 _ _ _ (ok_ret _)); lia).
  - ok_by (apply (okA 9 0 _ _ _ (ok_fail _ 0)); lia).
  - ok_by (ok_go 9).
  - ok_by (eapply ok_bind; [apply (ok_weaken 5 5 0 9 9 0); [apply (ok_while 0 4 4); [intros; ok_by (eapply ok_bind; [apply (ok_read_octets_const 4)|intros; apply ok_ret])|lia]|lia..]|intros; apply (okA 9 0 _ _ _ (ok_ret _)); lia]).
  - ok_by (eapply ok_bind; [apply (ok_weaken 9 9 0 9 9 0); [apply (ok_while 0 8 16); [intros; ok_by (eapply ok_bind; [apply ok_read_aaaa|intros; apply ok_ret])|lia]|lia..]|intros; apply (okA 9 0 _ _ _ (ok_ret _)); lia]).
  - ok_by (ok_go 9).
Qed.

Lemma ok_svcb_step st : ok 9 12 4 (svcb_step st).
Proof.
  unfold svcb_step.
  ok_by (eapply ok_bind; [apply (okA 9 0 _ _ _ ok_read_u16); lia|intros key];
         eapply ok_bind; [apply (okA 9 0 _ _ _ ok_read_u16); lia|intros len];
         eapply ok_bind; [apply (okA 9 0 _ _ _ ok_get_len); lia|intros ln];
         apply ok_if_fail_l;
         eapply ok_bind; [apply (ok_weaken 9 (9 + 1) len 9 10 0); [apply (ok_sub_bytes 9 9 0 len); [apply ok_svcb_value|apply nohop_svcb_value]|lia..]|intros v];
         apply ok_if_fail_l; apply (okA 9 0 _ _ _ (ok_ret _)); lia).
Qed.

Lemma ok_read_svcb : ok 22 531 3 read_svcb.
Proof.
  unfold read_svcb.
  ok_by (eapply ok_bind; [apply (okA 22 0 _ _ _ ok_read_u16); lia|intros prio];
         eapply ok_bind; [apply (okA 22 0 _ _ _ ok_read_name); lia|intros target];
         eapply ok_bind; [apply (ok_while_m 0 9 12 4); [ok_by (ok_go 0)|intros; apply ok_svcb_step|lia]|intros st];
         apply (okA 22 0 _ _ _ (ok_ret _)); lia).
Qed.

(* ---- the remaining named decoders ---- *)
Lemma ok_read_tsig : ok 0 524 1 read_tsig.
Proof. unfold read_tsig. ok_by (ok_go 0). Qed.
Lemma ok_read_sig : ok 0 523 19 read_sig.
Proof. unfold read_sig. ok_by (ok_go 0). Qed.
Lemma ok_read_nsec3_head : ok 0 5 5 read_nsec3_head.
Proof. unfold read_nsec3_head. ok_by (ok_go 0). Qed.
Lemma ok_read_nsec3 : ok 1 8 6 read_nsec3.
Proof.
  unfold read_nsec3.
  ok_by (eapply ok_bind; [apply (okA 1 0 _ _ _ ok_read_nsec3_head); lia|intros]; ok_go 1).
Qed.

Ltac ok_named a :=
  first
  [ apply (okA a 0 _ _ _ ok_read_aaaa); lia
  | apply (okA a 0 _ _ _ ok_read_tsig); lia
  | apply (okA a 0 _ _ _ ok_read_sig); lia
  | apply (okA a 0 _ _ _ ok_read_nsec3_head); lia
  | apply (okA a 1 _ _ _ ok_read_nsec3); lia
  | apply (okA a 22 _ _ _ ok_read_svcb); lia
  | apply (okA a 21 _ _ _ ok_read_opt); lia
  | apply (okA a 3 _ _ _ ok_read_txt); lia ].

(* common slope and constant of all RDATA decoders *)
Definition AR : N := 22.
Definition KR : N := 1040.

Lemma ok_rdata_table : Forall (fun p => ok AR KR 0 (snd p)) rdata_table.
Proof.
  unfold rdata_table, AR, KR.
  repeat (constructor; [cbn [snd];
    first [ eapply ok_weaken; [ok_named 22|lia|lia|lia]
          | eapply ok_weaken; [ first [unfold read_a, read_name_rdata, read_caa, read_cert, read_csync, read_hinfo,
                                              read_mx, read_naptr, read_tlsa, read_soa, read_srv, read_sshfp, read_dnskey,
                                              read_cdnskey, read_ds, read_key, read_nsec; ok_go 22] |lia|lia|lia] ]|]).
  constructor.
Qed.

Lemma ok_read_rdata_body t : ok AR KR 0 (read_rdata_body t).
Proof.
  unfold read_rdata_body.
  destruct (find (fun p => fst p =? t) rdata_table) as [p|] eqn:E.
  - apply find_some in E. destruct E as [Hin _].
    exact (proj1 (Forall_forall _ _) ok_rdata_table p Hin).
  - unfold read_opaque, AR, KR. ok_by (ok_go 22).
Qed.

(* RData::read *)
Lemma ok_read_rdata t : ok AR KR 0 (read_rdata t).
Proof.
  unfold read_rdata.
  destruct ((t =? 255) || (t =? 251) || (t =? 252)).
  { apply (ok_weaken 0 0 0); [apply ok_fail|unfold AR, KR; lia..]. }
  intros c l Hc Hl. pose proof (ok_read_rdata_body t c l Hc Hl) as B.
  destruct (read_rdata_body t c l) as [[r c1] l1].
  destruct r as [d|flt].
  - destruct (dlen c1 =? 0); [exact B|].
    destruct B as [P1 P2 P3 P4 P5 P6 P7 P8 P9 P10]. constructor; try assumption; try exact I; try (cbn; discriminate).
    all: cbn in *; lia.
  - destruct flt as [e| | |]; try exact B.
    destruct (dlen c1 =? 0); [exact B|].
    destruct B as [P1 P2 P3 P4 P5 P6 P7 P8 P9 P10]. constructor; try assumption; try exact I; try (cbn; discriminate).
Qed.
