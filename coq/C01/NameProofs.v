(* C01 — Name::read (read_inner): termination, no panic, bounds on the decoded name, on the
   pointer hops and on the ticks.  The measure is phi = name_start + (upper - index), where
   upper = ptr_max_idx (or the end of the buffer before the first pointer): a label advances
   the index, a pointer replaces (name_start, upper, index) by (loc, name_start, loc) with
   loc < name_start and index < upper. *)
From Coq Require Import FMapPositive.
From HV Require Import Lib.Base Lib.ListX C01.Model C01.BaseProofs.
Open Scope N_scope.

Definition upper (pmax : option N) (c : cur) : N := match pmax with Some mx => mx | None => lim c end.
Definition phi (nstart : N) (pmax : option N) (c : cur) : N := nstart + (upper pmax c - pos c).
Definition hb (c : cur) (nstart nh : N) : N :=
  match cap c with
  | Some k => N.min (N.min nstart 16384) (k - nh)
  | None => N.min nstart 16384
  end.

Lemma enc_len_cons lb acc : enc_len (lb :: acc) = 1 + N.of_nat (length lb) + enc_len acc.
Proof. reflexivity. Qed.
Lemma enc_len_pos acc : 1 <= enc_len acc.
Proof. induction acc as [|x acc IH]; [cbn; lia|rewrite enc_len_cons; lia]. Qed.
Lemma enc_len_app a b : enc_len (a ++ b) + 1 = enc_len a + enc_len b.
Proof.
  induction a as [|y a IHa]; [cbn [app]; change (enc_len []) with 1; lia|].
  cbn [app]. rewrite !enc_len_cons. lia.
Qed.
Lemma enc_len_rev acc : enc_len (rev acc) = enc_len acc.
Proof.
  induction acc as [|x acc IH]; [reflexivity|]. cbn [rev].
  pose proof (enc_len_app (rev acc) [x]) as E. rewrite !enc_len_cons in *.
  change (enc_len []) with 1 in E. lia.
Qed.

Lemma wf_pop c b r : wf c -> rem c = b :: r -> pos c < lim c ->
  wf (mkCur (buf c) (tbl c) (fuel0 c) (cap c) (lim c) (pos c + 1) r).
Proof.
  intros [H1 H2 H3 H4 H5] Er Hlt. constructor; cbn; try assumption; try lia.
  replace (N.to_nat (pos c + 1)) with (N.to_nat (pos c) + 1)%nat by lia.
  rewrite <- skipn_skipn_add, <- H3, Er. reflexivity.
Qed.

Lemma land_16383 x : N.land x 16383 < 16384.
Proof.
  change 16383 with (N.ones 14). rewrite N.land_ones. apply N.mod_lt. discriminate.
Qed.

Lemma wf_clone c c2 loc : wf c -> same c c2 -> tbl_ok c2 -> loc <= lim c ->
  wf (mkCur (buf c) (tbl c) (fuel0 c) (cap c) (lim c) loc (suffix_at c2 loc)).
Proof.
  intros [H1 H2 H3 H4 H5] (S1 & S2 & S3 & S4 & S5) Ht Hl. constructor; cbn; try assumption; try lia.
  rewrite (suffix_at_ok _ _ Ht). now rewrite S1.
Qed.

Record rdpost (acc : name) (nstart nh : N) (c : cur) (l : log) (r : res name) (c' : cur) (l' : log) : Prop := mkRd {
  r_wf : wf c';
  r_same : same c c';
  r_pos : pos c <= pos c';
  r_names : names l' = names l;
  r_total : total r;
  r_ok : forall ls, r = Ok ls -> pos c + 1 <= pos c' /\ Forall wf_label ls /\ enc_len ls <= 255;
  r_hmono : hops l <= hops l';
  r_hops : hops l' <= hops l + hb c nstart nh;
  r_ticks : ticks l' + 6 * hops l + 2 * enc_len acc <= ticks l + 6 * hops l' + 514 }.

Ltac hb_lia := unfold hb in *; cbn [cap advance] in *; repeat match goal with |- context [match cap ?c with _ => _ end] => destruct (cap c) end; lia.
Ltac rd_triv := constructor; cbn; try assumption; try apply same_refl; try reflexivity; try exact I; try discriminate; try hb_lia.

Lemma rd_spec : forall fuel acc nstart pmax nh c l,
  wf c -> (N.to_nat (phi nstart pmax c) < fuel)%nat ->
  nstart <= pos c -> (forall mx, pmax = Some mx -> mx <= lim c) ->
  Forall wf_label acc -> enc_len acc <= 255 ->
  match rd fuel acc nstart pmax nh c l with
  | (r, c', l') => rdpost acc nstart nh c l r c' l'
  end.
Proof.
  induction fuel as [|fuel IH]; intros acc nstart pmax nh c l Hc Hphi Hns Hmx Hacc Hlen; [lia|].
  pose proof (enc_len_pos acc) as Hpos1. pose proof (wf_pos _ Hc) as Hpl.
  cbn [rd]. unfold bind at 1. cbn [tick tick_n]. unfold bind at 1. cbn [get_pos].
  destruct (match pmax with Some mx => mx <=? pos c | None => false end) eqn:Eov.
  { cbn. rd_triv. }
  unfold bind at 1. unfold peek at 1. unfold bind at 1. cbn [tick tick_n ticks hops names].
  assert (Hup : forall b r, rem c = b :: r -> pos c <? lim c = true -> pos c < upper pmax c).
  { intros b r _ E. apply N.ltb_lt in E. unfold upper. destruct pmax as [mx|]; [|exact E].
    apply N.leb_gt in Eov. exact Eov. }
  destruct (pos c <? lim c) eqn:Elt; [destruct (rem c) as [|b r] eqn:Er|]; try (cbn; rd_triv).
  specialize (Hup b r eq_refl eq_refl).
  destruct (b =? 0) eqn:Eb0.
  { (* root *)
    unfold bind at 1. unfold pop at 1. unfold bind at 1. cbn [tick tick_n ticks hops names].
    rewrite Elt, Er. cbn [ret ticks hops names].
    apply N.ltb_lt in Elt.
    constructor; cbn; try (eapply wf_pop; eassumption); try (repeat split; fail); try reflexivity; try exact I;
      try hb_lia.
    intros ls [= <-]. split; [lia|]. split; [apply Forall_rev; exact Hacc|]. rewrite enc_len_rev. exact Hlen. }
  destruct (192 <=? b) eqn:Eptr.
  { (* pointer *)
    unfold bind at 1. unfold read_u16 at 1. unfold bind at 1. unfold read_slice at 1. unfold bind at 1.
    cbn [tick tick_n ticks hops names].
    destruct (2 <=? dlen c) eqn:E2; [|cbn; rd_triv].
    apply N.leb_le in E2. destruct (wf_advance c 2 Hc E2) as [Hw2 Hs2].
    cbn [ret]. 
    set (loc := N.land (be (firstn (N.to_nat 2) (rem c))) 16383).
    destruct ((loc <? nstart) && cap_allows (advance c 2) nh) eqn:Econd;
      [|cbn; constructor; cbn; try assumption; try reflexivity; try exact I; try discriminate; try hb_lia].
    apply andb_true_iff in Econd. destruct Econd as [Eloc Ecap]. apply N.ltb_lt in Eloc.
    unfold cap_allows in Ecap. cbn [cap advance] in Ecap.
    unfold bind at 1. cbn [hop ticks hops names]. unfold on_clone.
    cbn [advance lim buf tbl fuel0 pos cap].
    destruct (lim c <? loc) eqn:Elim; [apply N.ltb_lt in Elim; lia|].
    pose proof (land_16383 (be (firstn (N.to_nat 2) (rem c)))) as Hl14. fold loc in Hl14.
    assert (Hwc : wf (mkCur (buf c) (tbl c) (fuel0 c) (cap c) (lim c) loc (suffix_at (advance c 2) loc))).
    { apply wf_clone; [exact Hc|exact Hs2|exact (wf_tbl _ Hw2)|lia]. }
    set (cc := mkCur (buf c) (tbl c) (fuel0 c) (cap c) (lim c) loc (suffix_at (advance c 2) loc)) in *.
    set (l1 := mkLog (ticks l + 1 + 1 + 1) (hops l + 1) (names l)).
    specialize (IH acc loc (Some nstart) (nh + 1) cc l1 Hwc).
    assert (Hphi' : (N.to_nat (phi loc (Some nstart) cc) < fuel)%nat).
    { unfold phi, upper in *. cbn [pos cc]. destruct pmax as [mx|]; lia. }
    specialize (IH Hphi' ltac:(cbn; lia) ltac:(intros mx [= <-]; cbn; lia) Hacc Hlen).
    destruct (rd fuel acc loc (Some nstart) (nh + 1) cc l1) as [[r0 c0] l0].
    destruct IH as [I1 I2 I3 I4 I5 I6 I7 I8 I9]. cbn [ticks hops names l1] in *.
    unfold hb in I8. cbn [cap cc] in I8.
    constructor; cbn; try assumption; try lia.
    2:{ unfold hb. destruct (cap c) as [k|]; [apply N.ltb_lt in Ecap|]; lia. }
    intros ls E. destruct (I6 ls E) as (_ & F1 & F2). split; [lia|]. split; assumption.
  }
  destruct (b <? 64) eqn:E64; [|cbn; rd_triv].
  unfold bind at 1. unfold read_chardata at 1. unfold bind at 1. unfold pop at 1. unfold bind at 1.
  cbn [tick tick_n ticks hops names]. rewrite Elt, Er.
  apply N.ltb_lt in Elt.
  pose proof (wf_pop c b r Hc Er Elt) as Hw1.
  set (c1 := mkCur (buf c) (tbl c) (fuel0 c) (cap c) (lim c) (pos c + 1) r) in *.
  unfold read_slice at 1. unfold bind at 1. cbn [tick tick_n ticks hops names].
  destruct (b <=? dlen c1) eqn:Eb; [|cbn; constructor; cbn; try assumption; try (repeat split; fail); try reflexivity; try exact I; try discriminate; try hb_lia].
  apply N.leb_le in Eb. destruct (wf_advance c1 b Hw1 Eb) as [Hw2 Hs2].
  set (lb := firstn (N.to_nat b) (rem c1)).
  assert (Hlb : length lb = N.to_nat b).
  { unfold lb. apply firstn_length_le. pose proof (rem_length c1 Hw1) as E. rewrite E.
    pose proof (wf_lim _ Hw1). unfold dlen in Eb. lia. }
  destruct (63 <? N.of_nat (length lb)) eqn:E63.
  { cbn. constructor; cbn; try assumption; try reflexivity; try exact I; try discriminate; try hb_lia. }
  destruct (255 <? enc_len acc + N.of_nat (length lb) + 1) eqn:E255.
  { cbn. constructor; cbn; try assumption; try reflexivity; try exact I; try discriminate; try hb_lia. }
  apply N.ltb_ge in E63. apply N.ltb_ge in E255. apply N.eqb_neq in Eb0.
  set (l1 := mkLog (ticks l + 1 + 1 + 1 + 1) (hops l) (names l)).
  specialize (IH (lb :: acc) nstart pmax nh (advance c1 b) l1 Hw2).
  assert (Hphi' : (N.to_nat (phi nstart pmax (advance c1 b)) < fuel)%nat).
  { unfold phi, upper in *. cbn [pos advance c1 lim]. destruct pmax as [mx|]; lia. }
  specialize (IH Hphi' ltac:(cbn; lia) ltac:(intros mx E; cbn; apply Hmx; exact E)).
  assert (Hacc' : Forall wf_label (lb :: acc)).
  { constructor; [|exact Hacc]. unfold wf_label. lia. }
  specialize (IH Hacc' ltac:(rewrite enc_len_cons; lia)).
  destruct (rd fuel (lb :: acc) nstart pmax nh (advance c1 b) l1) as [[r0 c0] l0].
  destruct IH as [I1 I2 I3 I4 I5 I6 I7 I8 I9]. cbn [ticks hops names l1 pos advance c1] in *.
  rewrite enc_len_cons in I9.
  constructor; cbn; try assumption; try hb_lia.
  intros ls E. destruct (I6 ls E) as (P & F1 & F2). cbn [pos advance c1] in P. split; [lia|split; assumption].
Qed.

(* Name::read *)
Lemma hb_hcap c : hb c (pos c) 0 <= hcap c.
Proof. unfold hb, hcap. destruct (cap c); lia. Qed.

Lemma ok_read_name : ok 0 514 1 read_name.
Proof.
  intros c l Hc Hl. unfold read_name. unfold bind at 1.
  pose proof (rd_spec (fuel0 c) [] (pos c) None 0 c l Hc) as R.
  assert (Hphi : (N.to_nat (phi (pos c) None c) < fuel0 c)%nat).
  { unfold phi, upper. pose proof (wf_fuel _ Hc). pose proof (wf_lim _ Hc). pose proof (wf_pos _ Hc). lia. }
  specialize (R Hphi (N.le_refl _) ltac:(discriminate) (Forall_nil _) ltac:(cbn; lia)).
  destruct (rd (fuel0 c) [] (pos c) None 0 c l) as [[r c1] l1].
  destruct R as [R1 R2 R3 R4 R5 R6 R7 R8 R9]. change (enc_len []) with 1 in R9.
  assert (Hl1 : names_ok l1) by (unfold names_ok; rewrite R4; exact Hl).
  pose proof (hb_hcap c) as Hh. pose proof (N.le_0_l (hcap c * (pos c1 - pos c))) as Hnn.
  destruct r as [ls|flt].
  - destruct (R6 ls eq_refl) as (P & F1 & F2).
    destruct (255 <=? name_len ls) eqn:E255.
    + cbn. constructor; cbn; try assumption; try exact I; try discriminate; try (rewrite ?R4; lia).
    + cbn. constructor; cbn; try assumption; try exact I; try lia.
      * constructor; [split; assumption|exact Hl1].
      * assert (hcap c * 1 <= hcap c * (pos c1 - pos c)) by (apply N.mul_le_mono_l; lia). lia.
      * rewrite R4. change (N.pos (Pos.of_succ_nat (length (names l)))) with (N.of_nat (S (length (names l)))).
        rewrite Nat2N.inj_succ. lia.
  - constructor; cbn; try assumption; try discriminate; try (rewrite ?R4; lia).
Qed.
