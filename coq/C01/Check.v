(* C01 — correspondence glue: cases written by the Rust harness (entry point, skip offset,
   input bytes, what the real decoder returned) are re-run on the model inside Coq. *)
From HV Require Import Lib.Base Lib.Pack C01.Model.
Open Scope N_scope.

Inductive obs :=
| OOk (dump : pbytes) (used : N)   (* Ok(value): canonical dump, decoder index afterwards *)
| OErr (e : err)                   (* Err(DecodeError) of class e *)
| OPanic                           (* the implementation panicked or hung (oracle failure) *)
| OSkip.                           (* oracle-only: too much work to re-run inside Coq *)

Inductive case := Case (e : entry) (skip : N) (input : pbytes) (o : obs).

(* the harness advances the decoder by [skip] bytes (read_slice) before calling the entry *)
Definition run_at (e : entry) (skip : N) (b : list byte) : res (list byte) * cur * log :=
  (if skip =? 0 then entry_m e else read_slice skip ;;; entry_m e) (init b) log0.

Definition err_eqb (a b : err) : bool :=
  match a, b with
  | EInsufficient, EInsufficient | EPtrNotPrior, EPtrNotPrior | EOverlap, EOverlap
  | EUnrecLabel, EUnrecLabel | ELabelTooLong, ELabelTooLong | ENameTooLong, ENameTooLong
  | ERdLen, ERdLen | EEdnsNotRoot, EEdnsNotRoot | EEmptyRecord, EEmptyRecord
  | ERecordAfterSig, ERecordAfterSig | ENotInAdditional, ENotInAdditional | EDupEdns, EDupEdns
  | EBadQueryCount, EBadQueryCount | EUnknownType, EUnknownType | EPrevIndex, EPrevIndex
  | EOther, EOther => true
  | _, _ => false
  end.

(* the decoder index is observable for the Name and Record entries only *)
Definition used_observable (e : entry) : bool :=
  match e with EName | ERecord => true | _ => false end.

Definition check (c : case) : bool :=
  match c with
  | Case e skip input o =>
      match o with OSkip => true | _ =>
      match run_at e skip (unpack input), o with
      | (Ok d, c', _), OOk dump used =>
          bytes_eqb d (unpack dump) && (negb (used_observable e) || (pos c' =? used))
      | (Err x, _, _), OErr y => err_eqb x y
      | (Unmodelled, _, _), _ => true       (* oracle-only case *)
      | _, _ => false
      end end
  end.

Definition bad (cs : list case) : list N := bad_idx check 0 cs.

(* full model output for one case (used in replay files): outcome, position, ticks, hops,
   number of names decoded *)
Definition show (c : case) :=
  match c with
  | Case e skip input _ =>
      let '(r, c', l) := run_at e skip (unpack input) in
      (r, pos c', ticks l, hops l, length (names l))
  end.
