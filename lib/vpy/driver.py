"""Check driver: proof gate, anchor gate, correspondence gate, oracle gate, verdict, evidence.

One property = one Coq directory coq/<Cnn>/ (Model.v, proofs, Props.v, Check.v), one harness
binary harness/src/bin/<cnn>.rs, and one entry in lib/vpy/props.py.
"""
import concurrent.futures as cf
import fcntl
import hashlib
import json
import os
import re
import subprocess
import sys
import time

ROOT = os.path.dirname(os.path.dirname(os.path.dirname(os.path.abspath(__file__))))
COQ = os.path.join(ROOT, "coq")
HARNESS = os.path.join(ROOT, "harness")
TARGET = os.path.join(ROOT, "target")
CACHE = os.path.join(ROOT, ".cache")
EVID = os.path.join(ROOT, "evidence")
REPO = "/repo"

# Mutation self-tests only (never a registered command): VP_REPO=<scratch worktree> runs the same
# check against another copy of the repository, with its own harness copy and target directory.
if os.environ.get("VP_REPO") and os.path.realpath(os.environ["VP_REPO"]) != "/repo":
    REPO = os.path.realpath(os.environ["VP_REPO"])
    _h = hashlib.sha1(REPO.encode()).hexdigest()[:8]
    _ALT = os.path.join(CACHE, "alt", _h)
    os.makedirs(_ALT, exist_ok=True)
    subprocess.run(["rsync", "-a", "--delete", "--exclude", "Cargo.lock", HARNESS + "/", _ALT + "/harness/"], check=True)
    for _f in ("Cargo.toml", ".cargo/config.toml"):
        _p = os.path.join(_ALT, "harness", _f)
        _s = open(_p).read().replace("/repo/", REPO + "/").replace("/verif/target", os.path.join(_ALT, "target"))
        open(_p, "w").write(_s)
    HARNESS = os.path.join(_ALT, "harness")
    TARGET = os.path.join(_ALT, "target")
    CACHE = os.path.join(_ALT, "cache")
    EVID = os.path.join(_ALT, "evidence")

FORBIDDEN = re.compile(
    r"\b(Admitted|admit|Axiom|Axioms|Parameter|Parameters|Conjecture|Conjectures|Abort All|"
    r"Unset Guard Checking|Unset Positivity Checking|Unset Universe Checking|bypass_check|"
    r"Admit Obligations|native_compute)\b|type-in-type|impredicative-set")

# axioms a theorem may depend on (all declared by Coq's standard library itself)
STDLIB_AXIOMS = {
    "FunctionalExtensionality.functional_extensionality_dep",
    "functional_extensionality_dep",
    "Eqdep.Eq_rect_eq.eq_rect_eq",
    "Classical_Prop.classic",
    "ProofIrrelevance.proof_irrelevance",
    "JMeq.JMeq_eq",
}

ENV = dict(os.environ, CARGO_NET_OFFLINE="true", CARGO_TARGET_DIR=TARGET)


def log(*a):
    print(*a, file=sys.stderr, flush=True)


def run(cmd, cwd=None, timeout=None, env=None):
    p = subprocess.run(cmd, cwd=cwd, timeout=timeout, env=env or ENV, stdout=subprocess.PIPE,
                       stderr=subprocess.STDOUT, text=True, errors="replace")
    out = "\n".join(l for l in p.stdout.splitlines() if "conda.cli.condarc" not in l)
    return p.returncode, out


class Lock:
    def __init__(self, name):
        d = os.path.join(ROOT, ".cache")
        os.makedirs(d, exist_ok=True)
        self.path = os.path.join(d, name + ".lock")

    def __enter__(self):
        self.f = open(self.path, "w")
        fcntl.flock(self.f, fcntl.LOCK_EX)

    def __exit__(self, *a):
        fcntl.flock(self.f, fcntl.LOCK_UN)
        self.f.close()


# --------------------------------------------------------------------------- build

def coq_build(targets):
    """full .vo build of the given targets (and what they depend on)"""
    # the project file is regenerated under a short global lock; the build itself only takes a
    # per-directory lock (targets of different properties do not interfere)
    with Lock("coq-gen"):
        rc, out = run(["sh", "gen_project.sh"], cwd=COQ)
        if rc != 0:
            return False, out
    key = "coq-" + (targets[0].split("/")[0] if targets else "all")
    with Lock(key):
        rc, out = run(["make", "-j8"] + targets, cwd=COQ, timeout=3000)
        return rc == 0, out


def harness_build(bins, release=False):
    lock = os.path.join(HARNESS, "Cargo.lock")
    if not os.path.exists(lock):
        import shutil
        shutil.copy(os.path.join(REPO, "Cargo.lock"), lock)
    cmd = ["cargo", "build", "--offline"] + (["--release"] if release else [])
    for b in bins:
        cmd += ["--bin", b]
    with Lock("cargo"):
        rc, out = run(cmd, cwd=HARNESS, timeout=6000)
    return rc == 0, out


def harness_bin(name, release=False):
    return os.path.join(TARGET, "release" if release else "debug", name)


# --------------------------------------------------------------------------- G1 proof gate

def proof_gate(prop, spec):
    """returns dict(ok, obligations, discharged, theorems, axioms, detail)"""
    d = os.path.join(COQ, spec["coq_dir"])
    res = dict(ok=False, obligations=0, discharged=0, theorems=[], axioms={}, detail="")
    files = [os.path.join(dp, f) for base in (d, os.path.join(COQ, "Lib"))
             for dp, _, fs in os.walk(base) for f in fs if f.endswith(".v")]
    for extra in spec.get("coq_extra_dirs", []):
        files += [os.path.join(dp, f) for dp, _, fs in os.walk(os.path.join(COQ, extra)) for f in fs if f.endswith(".v")]
    for f in files:
        src = strip_comments(open(f).read())
        m = FORBIDDEN.search(src)
        if m:
            res["detail"] = "forbidden token %r in %s" % (m.group(0), os.path.relpath(f, ROOT))
            return res
    props_v = os.path.join(d, "Props.v")
    src = strip_comments(open(props_v).read())
    theorems = re.findall(r"^\s*Theorem\s+(\w+)", src, re.M)
    printed = re.findall(r"^\s*Print Assumptions\s+(\w+)\s*\.", src, re.M)
    res["theorems"] = theorems
    res["obligations"] = len(theorems)
    missing = [t for t in theorems if t not in printed]
    if missing:
        res["detail"] = "no Print Assumptions for: " + ", ".join(missing)
        return res
    ok, out = coq_build([spec["coq_dir"] + "/Props.vo", spec["coq_dir"] + "/Check.vo"])
    if not ok:
        res["detail"] = "Coq build failed:\n" + out[-3000:]
        m = re.search(r'File "\./([^"]+)", line (\d+)', out)
        res["broken_at"] = m.group(0) if m else "?"
        return res
    # re-run Props.v alone to capture the Print Assumptions output (the .vo goes to the cache)
    os.makedirs(os.path.join(CACHE, "props", prop), exist_ok=True)
    rc, out = run(["coqc", "-Q", COQ, "HV", "-w", "-notation-overridden", props_v, "-o",
                   os.path.join(CACHE, "props", prop, "Props.vo")], cwd=COQ, timeout=1200)
    if rc != 0:
        res["detail"] = "Props.v does not check:\n" + out[-3000:]
        return res
    blocks = parse_assumptions(out)
    if len(blocks) != len(printed):
        res["detail"] = "expected %d Print Assumptions blocks, got %d" % (len(printed), len(blocks))
        return res
    allowed = STDLIB_AXIOMS | set(spec.get("allowed_axioms", []))
    discharged = 0
    for name, axs in zip(printed, blocks):
        bad = [a for a in axs if a not in allowed and a.split(".")[-1] not in allowed]
        if bad:
            res["detail"] = "theorem %s depends on non-allowlisted axioms: %s" % (name, bad)
            return res
        if axs:
            res["axioms"][name] = axs
        if name in theorems:
            discharged += 1
    res["discharged"] = discharged
    res["ok"] = discharged == len(theorems) and discharged > 0
    return res


def coqchk_gate(spec):
    """independent re-check of the compiled property theorems (thorough tier): returns dict"""
    mod = "HV.%s.Props" % spec["coq_dir"].replace("/", ".")
    rc, out = run(["coqchk", "-silent", "-o", "-Q", COQ, "HV", mod], cwd=COQ, timeout=3000)
    res = dict(ok=False, cmd="coqchk -silent -o -Q /verif/coq HV " + mod, axioms=[], detail="")
    if rc != 0:
        res["detail"] = out[-1500:]
        return res
    m = re.search(r"\* Axioms:(.*?)\n\s*\n\* Constants/Inductives relying on type-in-type:(.*?)\n\s*\n\* Constants/Inductives relying on unsafe \(co\)fixpoints:(.*?)\n\s*\n\* Inductives whose positivity is assumed:(.*?)\n", out, re.S)
    if not m:
        res["detail"] = "cannot parse coqchk summary: " + out[-800:]
        return res
    ax = [a.strip() for a in m.group(1).strip().splitlines() if a.strip() and a.strip() != "<none>"]
    res["axioms"] = ax
    unsafe = [g.strip() for g in (m.group(2), m.group(3), m.group(4)) if g.strip() != "<none>"]
    allowed = STDLIB_AXIOMS | set(spec.get("allowed_axioms", []))
    bad = [a for a in ax if a not in allowed and a.split(".")[-1] not in allowed]
    if bad or unsafe:
        res["detail"] = "coqchk reports axioms %s / unsafe features %s" % (bad, unsafe)
        return res
    res["ok"] = True
    return res


def strip_comments(s):
    out, depth, i = [], 0, 0
    while i < len(s):
        if s.startswith("(*", i):
            depth += 1
            i += 2
        elif s.startswith("*)", i) and depth:
            depth -= 1
            i += 2
        else:
            if not depth:
                out.append(s[i])
            i += 1
    return "".join(out)


def parse_assumptions(out):
    blocks, cur = [], None
    for line in out.splitlines():
        if line.startswith("Closed under the global context"):
            if cur is not None:
                blocks.append(cur)
                cur = None
            blocks.append([])
        elif line.startswith("Axioms:"):
            if cur is not None:
                blocks.append(cur)
            cur = []
        elif cur is not None:
            m = re.match(r"^(\S+)\s*:", line)
            if m and not line.startswith(" "):
                cur.append(m.group(1))
            elif line and not line.startswith(" "):
                blocks.append(cur)
                cur = None
    if cur is not None:
        blocks.append(cur)
    return blocks


# --------------------------------------------------------------------------- G2 anchors

def _struct_fields(src, name):
    """the set of `field: Type` entries of `struct <name> { ... }` (order, attributes, visibility and
    comments ignored), or None when the struct is not found"""
    m = re.search(r"struct\s+%s\s*\{(.*?)\n\}" % re.escape(name), src, re.S)
    if not m:
        return None
    body = re.sub(r"//[^\n]*", "", m.group(1))
    body = re.sub(r"#\[[^\]]*\]", "", body)
    out = set()
    for part in body.split(",\n"):
        part = " ".join(part.replace(",", " , ").split()).strip(" ,")
        part = re.sub(r"^pub(\([^)]*\))?\s+", "", part)
        if part:
            out.add(part.replace(" , ", ", "))
    return out


def probe_values():
    """constants and default values read from the compiled crates (harness binary `hookcheck`)"""
    rc, out = run([harness_bin("hookcheck")], cwd=HARNESS, timeout=120)
    vals = {}
    for line in out.splitlines():
        m = re.match(r"^PROBE (\S+) = (.*)$", line)
        if m:
            vals[m.group(1)] = m.group(2).strip()
    return vals


def anchor_gate(spec):
    """each anchor: dict(file, regex, count|expect, why) -- a regex over the source;
    dict(file, struct, fields, why) -- the field set of a struct, order-insensitive;
    dict(probe, expect, why) -- a value read from the compiled crates. Returns (ok, results)"""
    results, ok = [], True
    probes = None
    for a in spec.get("anchors", []):
        if "probe" in a:
            if probes is None:
                probes = probe_values()
            found = probes.get(a["probe"])
            good = found == a["expect"]
            results.append(dict(probe=a["probe"], expect=a["expect"], why=a.get("why", ""), found=found, ok=good))
            ok = ok and good
            continue
        path = os.path.join(REPO, a["file"])
        try:
            src = open(path).read()
        except OSError as e:
            results.append(dict(a, found="unreadable: %s" % e, ok=False))
            ok = False
            continue
        if "struct" in a:
            fs = _struct_fields(src, a["struct"])
            good = fs is not None and fs == set(a["fields"])
            results.append(dict(file=a["file"], struct=a["struct"], why=a.get("why", ""),
                                found=sorted(fs) if fs is not None else None, ok=good))
            ok = ok and good
            continue
        ms = re.findall(a["regex"], src, re.M | re.S)
        if "expect" in a:
            good = len(ms) >= 1 and all((m if isinstance(m, str) else m[0]) == a["expect"] for m in ms)
            found = ms[:3]
        else:
            good = len(ms) == a.get("count", 1)
            found = len(ms)
        if a.get("soft"):
            # a model constant that no theorem depends on and that cannot be reached dynamically: a drift is
            # recorded in the evidence, it is not a broken tie
            results.append(dict(file=a["file"], regex=a["regex"], why=a.get("why", ""), found=found, ok=True,
                                soft=True, drift=not good))
            continue
        results.append(dict(file=a["file"], regex=a["regex"], why=a.get("why", ""), found=found, ok=good))
        ok = ok and good
    return ok, results


# --------------------------------------------------------------------------- G3/G4

def run_cases(prop, spec, seed, n, tier, tag="main", release=False, extra_args=()):
    """run the harness, evaluate the model on its cases inside Coq; returns dict"""
    out_dir = os.path.join(CACHE, "run", prop, tag)
    if os.path.isdir(out_dir):
        for f in os.listdir(out_dir):
            os.unlink(os.path.join(out_dir, f))
    os.makedirs(out_dir, exist_ok=True)
    cmd = [harness_bin(spec["bin"], release), "--seed", str(seed), "--n", str(n), "--tier", tier, "--out", out_dir]
    cmd += list(extra_args)
    t0 = time.time()
    rc, out = run(cmd, cwd=HARNESS, timeout=spec.get("harness_timeout", 3000))
    if rc != 0:
        return dict(ok=False, detail="harness failed (rc=%s):\n%s" % (rc, out[-3000:]))
    summ = json.load(open(os.path.join(out_dir, "summary.json")))
    t1 = time.time()

    def one(sh):
        f = os.path.join(out_dir, sh["file"])
        rc, o = run(["coqc", "-noglob", "-Q", COQ, "HV", "-w", "-notation-overridden", f], cwd=out_dir, timeout=3000)
        if rc != 0:
            return sh, None, o[-2000:]
        m = re.search(r"=\s*\[(.*?)\]\s*:\s*list N", o, re.S)
        if not m:
            return sh, None, "cannot parse coqc output: " + o[-500:]
        idx = [int(x) for x in re.findall(r"\d+", m.group(1))]
        return sh, idx, ""

    mism, errors = [], []
    with cf.ThreadPoolExecutor(max_workers=int(os.environ.get("VP_JOBS", "16"))) as ex:
        for sh, idx, err in ex.map(one, summ["shards"]):
            if idx is None:
                errors.append("%s: %s" % (sh["file"], err))
            else:
                mism += [sh["first"] + i for i in idx]
    lines = {}
    with open(os.path.join(out_dir, "cases.txt")) as f:
        for line in f:
            pos, index, text = line.rstrip("\n").split("\t", 2)
            lines[int(pos)] = (int(index), text)
    return dict(ok=True, summary=summ, mismatches=sorted(mism), coq_errors=errors, lines=lines, out_dir=out_dir,
                t_harness=t1 - t0, t_coq=time.time() - t1)


def find_crashing_case(spec, seed, n, tier, release, budget=240):
    """the harness died while running cases 0..n-1 of (seed): replay them one process each, in parallel, and
    return (index, reason, output) of the first case whose process is killed by a signal or times out"""
    t_end = time.time() + budget

    def one(i):
        if time.time() > t_end:
            return i, None
        cmd = [harness_bin(spec["bin"], release), "--replay", "%d:%d" % (seed, i), "--tier", tier]
        try:
            p = subprocess.run(cmd, cwd=HARNESS, timeout=60, env=ENV, stdout=subprocess.PIPE,
                               stderr=subprocess.STDOUT, text=True, errors="replace")
        except subprocess.TimeoutExpired as e:
            return i, ("case does not finish within 60 s (process killed)", str(e.stdout or "")[-3000:])
        if p.returncode < 0 or p.returncode in (134, 139):
            return i, ("the implementation kills the process on this case (exit status %d)" % p.returncode,
                       p.stdout[-3000:])
        return i, None

    with cf.ThreadPoolExecutor(max_workers=int(os.environ.get("VP_JOBS", "16"))) as ex:
        for i, r in ex.map(one, range(n)):
            if r:
                t_end = 0
                return i, r[0], r[1]
    return None


def load_known(prop):
    p = os.path.join(ROOT, "known_findings.json")
    if not os.path.exists(p):
        return {}
    ks = json.load(open(p)).get("findings", [])
    return {k["id"]: k for k in ks if k["property"] == prop}


def write_replay(prop, seed, index, reason, text, kind, extra=None):
    d = os.path.join(EVID, "replay")
    os.makedirs(d, exist_ok=True)
    h = hashlib.sha1((text + reason).encode()).hexdigest()[:10]
    path = os.path.join(d, "%s-%s.json" % (prop, h))
    json.dump(dict(property=prop, seed=seed, index=index, kind=kind, reason=reason, case=text, **(extra or {})),
              open(path, "w"), indent=1)
    return path


def model_show(prop, spec, coq_term):
    """evaluate `show` on one case term inside Coq, return printed output"""
    d = os.path.join(CACHE, "run", prop, "show")
    os.makedirs(d, exist_ok=True)
    f = os.path.join(d, "show.v")
    mod = spec["coq_dir"]
    open(f, "w").write(
        "From Coq Require Import String Uint63.\nFrom HV Require Import Lib.Base Lib.Pack %s.Model %s.Check.\n"
        "Open Scope string_scope. Open Scope N_scope.\nEval vm_compute in (show (%s)).\nEval vm_compute in (check (%s)).\n"
        % (mod, mod, coq_term, coq_term))
    rc, out = run(["coqc", "-noglob", "-Q", COQ, "HV", "-w", "-notation-overridden", f], cwd=d, timeout=600)
    return out


# --------------------------------------------------------------------------- main entry

def check(prop, spec, tier="quick", seed=None, replay=None):
    t0 = time.time()
    seed = int(seed if seed is not None else os.environ.get("VERIF_SEED", "1"))
    os.makedirs(EVID, exist_ok=True)
    evidence_path = os.path.join(EVID, prop + ".json")
    release = spec.get("release", False)

    bins = [spec["bin"]] + (["hookcheck"] if any("probe" in a for a in spec.get("anchors", [])) and not release else [])
    ok, out = harness_build(bins, release)
    if ok and release and any("probe" in a for a in spec.get("anchors", [])):
        ok, out = harness_build(["hookcheck"], False)
    if not ok:
        # the harness no longer builds against /repo: the tie is broken
        path = write_replay(prop, seed, -1, "harness does not build against the current /repo tree", out[-4000:], "build")
        write_evidence(prop, spec, tier, seed, t0, None, None, None, violations=1, note="harness build failed")
        print("VIOLATION property=%s replay=%s no-failing-input-found" % (prop, path))
        return 1

    if replay:
        return do_replay(prop, spec, replay, release)

    pg = proof_gate(prop, spec)
    if pg["ok"] and tier == "thorough":
        ck = coqchk_gate(spec)
        pg["coqchk"] = ck
        if not ck["ok"]:
            pg["ok"] = False
            pg["detail"] = "coqchk: " + ck["detail"]
    ag_ok, ag = anchor_gate(spec)
    n = spec["n_thorough"] if tier == "thorough" else spec["n_quick"]
    rc_ = run_cases(prop, spec, seed, n, tier, release=release)
    if not rc_["ok"]:
        # the harness process died (abort, stack overflow, hang): look for the single case that kills it
        crash = find_crashing_case(spec, seed, n, tier, release)
        if crash:
            idx, why, text = crash
            path = write_replay(prop, seed, idx, why, text, "crash", dict(harness_detail=rc_["detail"][-1500:]))
            write_evidence(prop, spec, tier, seed, t0, pg, ag, None, violations=1, note=why[:500])
            print("VIOLATION property=%s replay=%s" % (prop, path))
            return 1
        path = write_replay(prop, seed, -1, "harness run failed", rc_["detail"], "harness")
        write_evidence(prop, spec, tier, seed, t0, pg, ag, None, violations=1, note=rc_["detail"][:500])
        print("VIOLATION property=%s replay=%s no-failing-input-found" % (prop, path))
        return 1
    known = load_known(prop)
    summ = rc_["summary"]
    violations = []   # (replay path, suffix)
    known_lines = []

    # G4: direct oracle failures on the implementation
    new_fail, known_hit = split_oracle(summ, known)
    for kid, items in sorted(known_hit.items()):
        known_lines.append("KNOWN-FINDING: property=%s %s %s (%d cases this run, e.g. %s)" % (
            prop, kid, known[kid]["what"], len(items), items[0]["text"][:200]))
    if new_fail:
        best = min(new_fail, key=lambda o: len(o["text"]))
        path = write_replay(prop, seed, best["index"], best["why"], best["text"], "oracle",
                            dict(failures=len(new_fail)))
        violations.append((path, ""))

    # G1/G2/G3 broken => violation search
    broken = []
    if not pg["ok"]:
        broken.append("proof gate: " + pg["detail"][:1500])
    if not ag_ok:
        broken.append("anchor gate: " + json.dumps([a for a in ag if not a["ok"]])[:1500])
    if rc_["coq_errors"]:
        broken.append("model evaluation failed: " + "; ".join(rc_["coq_errors"])[:1500])
    if rc_["mismatches"]:
        pos = min(rc_["mismatches"], key=lambda p: len(rc_["lines"][p][1]))
        idx, text = rc_["lines"][pos]
        broken.append("correspondence: model and implementation disagree on %d of %d cases; smallest: %s" % (
            len(rc_["mismatches"]), summ["evaluations"], text[:1500]))
    searched = 0
    if broken and not violations:
        # search the implementation for a concrete failing input with the thorough generators
        for s2 in (seed + 1, seed + 2):
            r2 = run_cases(prop, spec, s2, min(spec["n_thorough"], spec["n_quick"] * 2), tier, tag="search",
                           release=release)
            if not r2["ok"]:
                continue
            searched += r2["summary"]["evaluations"]
            nf, _ = split_oracle(r2["summary"], known)
            if nf:
                best = min(nf, key=lambda o: len(o["text"]))
                path = write_replay(prop, s2, best["index"], best["why"], best["text"], "oracle",
                                    dict(broken=broken, found_by="violation search"))
                violations.append((path, ""))
                break
        if not violations:
            first = None
            if rc_["mismatches"]:
                pos = min(rc_["mismatches"], key=lambda p: len(rc_["lines"][p][1]))
                first = rc_["lines"][pos]
            path = write_replay(prop, seed, first[0] if first else -1,
                                "no longer checks: " + " | ".join(broken), first[1] if first else "", "broken-tie",
                                dict(searched_cases=searched, theorems=pg.get("theorems")))
            violations.append((path, " no-failing-input-found"))

    write_evidence(prop, spec, tier, seed, t0, pg, ag, rc_, violations=len(violations),
                   known=[l for l in known_lines], searched=searched)
    for l in known_lines:
        print(l)
    for path, suffix in violations:
        print("VIOLATION property=%s replay=%s%s" % (prop, path, suffix))
    if not violations:
        print("OK property=%s tier=%s theorems=%d/%d cases=%d mismatches=0 oracle_failures=0 known=%d wall=%.0fs" % (
            prop, tier, pg["discharged"], pg["obligations"], summ["evaluations"], len(known_lines), time.time() - t0))
    return 1 if violations else 0


def split_oracle(summ, known):
    new_fail, known_hit = [], {}
    for o in summ["oracle_failures"]:
        k = o.get("known")
        if k and k in known and known[k].get("status", "open") == "open":
            known_hit.setdefault(k, []).append(o)
        else:
            new_fail.append(o)
    return new_fail, known_hit


def write_evidence(prop, spec, tier, seed, t0, pg, ag, rc_, violations, note="", known=(), searched=0):
    cov = dict(
        obligations=(pg or {}).get("obligations", 0) or 1,
        discharged=(pg or {}).get("discharged", 0),
        checker_cmd="make -C /verif/coq %s/Props.vo (coqc 8.16.1, full .vo build) + coqc Props.v with Print Assumptions parsed against an allowlist" % spec["coq_dir"],
        trusted_base=spec.get("trusted_base", []) + [
            "Coq 8.16.1 kernel (coqc; vm_compute used for closed evaluations; no native_compute)",
            "correspondence check: Rust harness harness/src/bin/%s.rs drives the implementation built from /repo's working tree; its cases are re-run on the Gallina model inside Coq (vm_compute) and compared" % spec["bin"],
            "primitive 63-bit integers (Uint63) only as a transport encoding of bytes in generated case files, never in a theorem",
        ],
        theorems=(pg or {}).get("theorems", []),
        axioms=(pg or {}).get("axioms", {}),
        proof_gate_detail=(pg or {}).get("detail", ""),
        coqchk=(pg or {}).get("coqchk", "not run in the quick tier"),
        anchors=ag or [],
        explanation=spec.get("explanation", "") + (" | " + note if note else ""),
    )
    if rc_ and rc_.get("ok"):
        s = rc_["summary"]
        cov.update(
            evaluations=s["evaluations"], distinct_nontrivial=s["distinct_nontrivial"], rule=s["rule"],
            samples=[x[:600] for x in s["samples"]], traces_validated_against_impl=s["evaluations"] - len(rc_["coq_errors"]) * 0,
            model_impl_mismatches=len(rc_["mismatches"]), oracle_failures=len(s["oracle_failures"]),
            input_distribution=s["kinds"], known_hits=s.get("known_hits", {}), harness_extra=s.get("extra", {}),
            wall_harness_s=round(rc_["t_harness"], 1), wall_model_eval_s=round(rc_["t_coq"], 1),
            violation_search_cases=searched,
        )
    else:
        cov.update(evaluations=0, distinct_nontrivial=0, rule="", samples=[])
    ev = dict(property_id=prop, tier=tier if tier in ("quick", "thorough") else "quick", seed=seed, level="proof",
              coverage=cov, assumptions=spec.get("assumptions", []), wall_s=round(time.time() - t0, 1),
              violations=violations, known_findings=list(known))
    json.dump(ev, open(os.path.join(EVID, prop + ".json"), "w"), indent=1)


def do_replay(prop, spec, replay, release):
    r = json.load(open(replay))
    print("replay of %s: %s" % (replay, r.get("reason", "")[:2000]))
    if r.get("index", -1) < 0:
        print(r.get("case", ""))
        return 1
    cmd = [harness_bin(spec["bin"], release), "--replay", "%d:%d" % (r["seed"], r["index"]), "--tier", "thorough"]
    rc, out = run(cmd, cwd=HARNESS, timeout=600)
    print(out)
    m = re.search(r"^COQ (.*)$", out, re.M)
    if m:
        coq_build([spec["coq_dir"] + "/Check.vo"])
        print("model on the same case (show, then check = model agrees with implementation):")
        print(model_show(prop, spec, m.group(1)))
    failed = "ORACLE-FAIL" in out
    if failed:
        print("VIOLATION property=%s replay=%s" % (prop, replay))
    return 1 if failed else 0
