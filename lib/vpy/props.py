"""Per-property configuration of the check driver."""

PROPS = {}
NOT_YET = {}
HOOK_COMMITS = []

PROPS["C17"] = dict(
    coq_dir="C17", bin="c17", n_quick=2400, n_thorough=40000,
    level_text="Theorems about a Gallina model of both TcpStream state machines, for every message list, every chunking / acceptance pattern and every placement of would-block steps (unbounded induction over the socket script); model tied to the real TcpStream by running identical socket scripts on both.",
    level_note="Trusted: Coq kernel; hand-written model (tie measured by the correspondence run); the harness's scripted socket. Not modelled: TLS/QUIC wrappers, idle timeout, real sockets.",
    anchors=[],
    trusted_base=[
        "model coq/C17/Model.v hand-written from crates/net/src/tcp/tcp_stream.rs (poll_next send and receive loops)",
        "scripted DnsTcpStream in the harness (socket contract: a read returns 0 < n <= buf.len() bytes or 0 at EOF; a write accepts 1 <= n <= offered)",
    ],
    assumptions=[
        "socket contract as scripted; poll_flush always ready; Ok(0) from poll_write (would spin) excluded",
        "TLS/QUIC streams, TimeoutStream idle timer and the mpsc outbound queue are outside the model",
    ],
    explanation="Theorems: the outcome of the receive machine depends only on the concatenated payload (any chunking, any Pending positions); well-formed streams yield exactly the messages; close inside prefix/body and zero-length frames yield the stated error; the send machine hands the socket a prefix of the framed stream for every acceptance pattern and all of it given enough accepting calls; end-to-end composition. Tie: every generated script is run on the real TcpStream and on the model inside Coq.",
)
