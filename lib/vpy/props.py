"""Per-property configuration of the check driver: one JSON file per property under /verif/props/."""
import json
import os

_D = os.path.join(os.path.dirname(os.path.dirname(os.path.dirname(os.path.abspath(__file__)))), "props")
PROPS = {}
for _f in sorted(os.listdir(_D)):
    if _f.endswith(".json") and not _f.startswith("_"):
        PROPS[_f[:-5]] = json.load(open(os.path.join(_D, _f)))

# reasons for properties not claimed (yet)
NOT_YET = json.load(open(os.path.join(_D, "_not_claimed.json"))) if os.path.exists(os.path.join(_D, "_not_claimed.json")) else {}
# commits in /repo that add cfg(hickory_dns_verif) hooks
HOOK_COMMITS = json.load(open(os.path.join(_D, "_hook_commits.json"))) if os.path.exists(os.path.join(_D, "_hook_commits.json")) else []
